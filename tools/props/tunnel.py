"""C19 — the example CAN tunnel is transparent.

Proof: Props/Tunnel.lean about the Model of acf-can-talker.c / acf-can-listener.c
(Model/Tunnel.lean) built on the library Models.
Tie: the real talker and listener `main` loops run in-process back to back through virtual
sockets (harness/ex) on generated frame sequences in all eight modes; packets and delivered
frames are compared with the Model and with the frames handed in."""
import subprocess
import pipeline
import common
import examples
from common import hexs

EFF, RTR = 0x80000000, 0x40000000


def gen_frames(rng, fd, n):
    out = []
    for _ in range(n):
        kind = rng.choice(["std", "std", "ext", "ext-small", "rtr", "rtr-ext"])
        if kind == "std":
            cid = rng.getrandbits(11)
        elif kind == "ext":
            cid = (rng.getrandbits(29) | 0x800) | EFF
        elif kind == "ext-small":
            cid = rng.getrandbits(11) | EFF          # extended frame whose identifier is small
        elif kind == "rtr":
            cid = rng.getrandbits(11) | RTR
        else:
            cid = rng.getrandbits(29) | EFF | RTR
        if fd:
            ln = rng.choice([0, 1, 7, 8, 12, 16, 20, 24, 32, 48, 64, rng.randrange(0, 65)])
            flags = rng.choice([0, 1, 2, 3]) | 4      # FD frames on a CAN-FD socket carry CANFD_FDF
        else:
            ln = rng.randrange(0, 9)
            flags = 0
        data = bytes(rng.getrandbits(8) for _ in range(ln))
        out.append((cid, ln, flags, data))
    return out


def check(rep, prop, tier, seed):
    rng = common.rng_for(prop, seed)
    thorough = tier == "thorough"
    obligations = []
    for n in ("can", "tscf", "ntscf", "udp", "acfCommon", "commonHeader"):
        for c in ("checkC01", "checkC02", "checkC04"):
            obligations.append(("%s_%s" % (c, n), "%s Spec.%s Gen.%s = true" % (c, n, n), "by decide +kernel"))
    general = ["O1722.C19_message", "O1722.C19_packet", "O1722.C19_stream", "O1722.talkLoop_spec", "O1722.C19_packet_no_stale", "O1722.talkMsg_determined", "O1722.C06_builder"]
    atoms_expr = "[" + ", ".join("(\"%s\", (atomsC01 Spec.%s Gen.%s) ++ (atomsC02 Spec.%s Gen.%s))" % (n, n, n, n, n) for n in ("can", "tscf", "ntscf", "udp", "acfCommon", "commonHeader")) + "]"
    res = pipeline.proof_stage(rep, prop, ["O1722.Gen.Data", "O1722.Props.Tunnel", "O1722.Props.TunnelDet"], obligations, general, atoms_expr)
    exe = examples.build_can()
    common.ensure_driver()
    total = 0
    modes = [(t, u, f) for t in "tn" for u in "ur" for f in "cf"]
    diff_groups = {}
    seen = set()
    cells = set()
    samples = []
    for (t, u, f) in modes:
        for count in ((1, 2, 3, 5, 9, 18, 19, 25, 61, 62, 70) if thorough else (1, 3, 25, 62)):
            for rep_i in range(6 if thorough else 2):
                npk = rng.randrange(1, 4)
                frames = gen_frames(rng, f == "f", count * npk)
                lines = ["frame %d %d %d %s" % (c, l, fl, hexs(d)) for c, l, fl, d in frames] + ["talk", "listen"]
                txt = "\n".join(lines) + "\n"
                env = dict(__import__("os").environ)
                env.update(common.SAN_ENV)
                p = subprocess.run([exe, t, u, f, str(count)], input=txt, capture_output=True, text=True, env=env, timeout=120)
                l = subprocess.run([common.DRIVER], input="tun %s %s %s %d\n" % (t, u, f, count) + txt, capture_output=True, text=True, timeout=120)
                total += len(frames)
                cells.add((t, u, f, count))
                c_lines = p.stdout.splitlines()
                l_lines = l.stdout.splitlines()
                want = ["out %d %d %d %s" % (c, ln, fl, hexs(d)) for c, ln, fl, d in frames]
                got_frames = [x for x in c_lines if x.startswith("out")]
                key = None
                if p.returncode != 0:
                    key = "tunnel:%s%s%s:crash" % (t, u, f)
                elif got_frames != want[:len(got_frames)] or len(want) - len(got_frames) >= count:
                    k = next((i for i, (a, b) in enumerate(zip(got_frames + [""] * len(want), want)) if a != b), 0)
                    cid = frames[k][0] if k < len(frames) else 0
                    g = (got_frames[k].split() + ["", "", "", ""])[1:5] if k < len(got_frames) else None
                    w = want[k].split()[1:5] if k < len(want) else None
                    if g is None or w is None:
                        what = "frames-lost"
                    elif g[0] != w[0]:
                        what = "rtr" if (cid & RTR) else ("eff-small-id" if (cid & EFF and (cid & 0x1fffffff) <= 0x7ff) else "can-id")
                    elif g[2] != w[2]:
                        what = "fd-flags"
                    else:
                        what = "length-or-data"
                    key = "tunnel:not-transparent:%s:%s" % ("fd" if f == "f" else "classic", what)
                elif c_lines != l_lines:
                    key = "tunnel:%s%s%s:packet-differs-from-model" % (t, u, f)
                if not samples:
                    samples.append({"mode": [t, u, f, count], "frames_in": lines[:3], "real_out": c_lines[:4]})
                if key and key not in seen:
                    seen.add(key)
                    rep.violation(key, {"kind": "tunnel", "mode": {"cf": t, "transport": u, "can": f, "frames_per_packet": count},
                                        "input": lines, "real_talker_and_listener": c_lines[:12], "model": l_lines[:12],
                                        "frames_expected_back": want[:8], "stderr": p.stderr[-800:]})
                    diff_groups["can"] = [0]
    pipeline.report_proof_failures(rep, prop, res, diff_groups)
    rep.cov.update(evaluations=total, distinct_nontrivial=len(cells),
                   rule="frames (11/29-bit ids, EFF with small id, RTR, BRS/ESI, len 0..8 or 0..64) x {TSCF,NTSCF} x {UDP,raw} x {classic,FD} x frames per packet, "
                        "1-3 packets per run; the real talker main builds packets, the real listener main parses them; delivered frames must equal the frames handed in "
                        "and packets/frames must equal the Model's; distinct = (mode, frames per packet)",
                   failed_atoms=["%s:%s" % x for x in res["failed_atoms"]])
    rep.cov["samples"] = samples + [{"theorem": "C19_packet"}]
    rep.assumptions += ["socket, CAN device and clock are the harness stand-ins; Linux can_frame/canfd_frame layouts from the installed headers"]
