"""C18 — example listeners survive arbitrary datagrams.

Proof: Props/Listeners.lean about the Models of the listeners' receive paths
(Model/Tunnel.lean: ACF-CAN; Model/Listeners.lean: hello-world, ACF-VSS, CVF, AAF, the CRF
listener's media-clock search): every offset touched lies inside the received octets, every
copy fits its destination, results depend on the received octets only, the walks end within
a bound given by the datagram length, state stays well-formed.
Tie and search: each listener's REAL main() runs in-process (virtual sockets/timers,
ASan+UBSan, watchdog) on generated datagram sequences — valid packets, truncations at every
boundary, every length field at 0 / small / exact±1 / beyond the datagram / maximum, wrong
types, unterminated text, random bytes, oversize datagrams — each sequence ending with a valid
datagram that must still be processed; what the listener wrote is compared with the Model."""
import os
import re
import struct
import subprocess
from concurrent.futures import ThreadPoolExecutor

import common
import examples
import harness_gen
import pipeline
from common import hexs

STREAM_ID = 0xAABBCCDDEEFF0001
_spec = {}


def spec():
    if not _spec:
        common.ensure_driver()
        for f in harness_gen.load_spec()["formats"]:
            _spec[f["name"]] = f
    return _spec


def setf(buf, off, fmt, suffix, value):
    f = spec()[fmt]
    fs = next(x for x in f["fields"] if x["enum"] == f["enumPrefix"] + suffix)
    first, width = fs["first"], fs["width"]
    value %= 1 << width
    for k in range(width):
        bit = (value >> (width - 1 - k)) & 1
        i = first + k
        byte, pos = off + i // 8, 7 - i % 8
        while len(buf) <= byte:
            buf.append(0)
        buf[byte] = (buf[byte] & ~(1 << pos)) | (bit << pos)


def pad4(n):
    return (4 - n % 4) % 4


# ---- valid datagrams ------------------------------------------------------------------------

def cf_header(rng, tscf, udp, length):
    b = bytearray()
    if udp:
        b += struct.pack(">I", rng.getrandbits(32))
    off = len(b)
    if tscf:
        b += bytes(24)
        setf(b, off, "Tscf", "SUBTYPE", 0x05)
        setf(b, off, "Tscf", "SV", 1)
        setf(b, off, "Tscf", "SEQUENCE_NUM", rng.getrandbits(8))
        setf(b, off, "Tscf", "STREAM_ID", STREAM_ID)
        setf(b, off, "Tscf", "STREAM_DATA_LENGTH", length)
    else:
        b += bytes(12)
        setf(b, off, "Ntscf", "SUBTYPE", 0x82)
        setf(b, off, "Ntscf", "SV", 1)
        setf(b, off, "Ntscf", "SEQUENCE_NUM", rng.getrandbits(8))
        setf(b, off, "Ntscf", "STREAM_ID", STREAM_ID)
        setf(b, off, "Ntscf", "NTSCF_DATA_LENGTH", length)
    return b


def can_msg(rng, fd, n=None):
    if n is None:
        n = rng.choice([0, 1, 3, 8] + ([12, 20, 63, 64] if fd else [5, 7]))
    m = bytearray(16)
    setf(m, 0, "Can", "ACF_MSG_TYPE", 1)
    setf(m, 0, "Can", "ACF_MSG_LENGTH", (16 + n + pad4(n)) // 4)
    setf(m, 0, "Can", "PAD", pad4(n))
    setf(m, 0, "Can", "MTV", 1)
    ext = rng.random() < 0.5
    setf(m, 0, "Can", "EFF", int(ext))
    setf(m, 0, "Can", "RTR", rng.getrandbits(1))
    if fd:
        setf(m, 0, "Can", "FDF", 1)
        setf(m, 0, "Can", "BRS", rng.getrandbits(1))
        setf(m, 0, "Can", "ESI", rng.getrandbits(1))
    setf(m, 0, "Can", "CAN_IDENTIFIER", rng.getrandbits(29 if ext else 11))
    setf(m, 0, "Can", "MESSAGE_TIMESTAMP", rng.getrandbits(64))
    m += bytes(rng.getrandbits(8) for _ in range(n)) + bytes(pad4(n))
    return m


def can_packet(rng, tscf, udp, fd, nmsg=None):
    msgs = [can_msg(rng, fd) for _ in range(nmsg if nmsg is not None else rng.choice([1, 1, 2, 3, 5]))]
    body = b"".join(bytes(m) for m in msgs)
    return cf_header(rng, tscf, udp, len(body)) + body


def hello_packet(rng, tscf, udp, text=None):
    if text is None:
        text = bytes(rng.choice(b"abcdefghijklmnopqrstuvwxyz ABC") for _ in range(rng.randrange(0, 80)))
    body = bytearray(8)
    total = 8 + len(text) + pad4(len(text))
    setf(body, 0, "Gpc", "ACF_MSG_TYPE", 5)
    setf(body, 0, "Gpc", "ACF_MSG_LENGTH", total // 4)
    setf(body, 0, "Gpc", "GPC_MSG_ID", rng.getrandbits(48))
    body += text + bytes(pad4(len(text)))
    return cf_header(rng, tscf, udp, len(body)) + body


def vss_packet(rng, tscf, udp, interop=None, dt=None, path=None):
    interop = rng.random() < 0.6 if interop is None else interop
    body = bytearray(12)
    setf(body, 0, "Vss", "ACF_MSG_TYPE", 0x42)
    setf(body, 0, "Vss", "MTV", 1)
    setf(body, 0, "Vss", "ADDR_MODE", 0 if interop else 1)
    setf(body, 0, "Vss", "VSS_OP", rng.getrandbits(3))
    setf(body, 0, "Vss", "VSS_DATATYPE", 0x9 if dt is None else dt)
    setf(body, 0, "Vss", "MSG_TIMESTAMP", rng.getrandbits(64))
    if interop:
        if path is None:
            path = bytes(rng.choice(b"Vehicle.Speed_Cabin.Door1") for _ in range(rng.randrange(0, 60)))
        body += struct.pack(">H", len(path)) + path
    else:
        body += struct.pack(">I", rng.choice([0, 1, 0x7fffffff, 0x80000000, 0xffffffff, rng.getrandbits(32)]))
    body += struct.pack(">I", rng.choice([0, 0x3f800000, 0xc2f6e979, 0x7f800000, 0xff800000, 0x7fc00000, 0xffc00000, 0x00000001,
                                           0x7f7fffff, rng.getrandbits(32)]))
    body += bytes(pad4(len(body)))
    setf(body, 0, "Vss", "ACF_MSG_LENGTH", len(body) // 4)
    return cf_header(rng, tscf, udp, len(body)) + bytes(body)


def cvf_packet(rng, n=None):
    n = rng.choice([0, 1, 5, 100, 1399, 1400]) if n is None else n
    b = bytearray(24)
    setf(b, 0, "Cvf", "SUBTYPE", 3)
    setf(b, 0, "Cvf", "SV", 1)
    setf(b, 0, "Cvf", "TV", 1)
    setf(b, 0, "Cvf", "SEQUENCE_NUM", rng.getrandbits(8))
    setf(b, 0, "Cvf", "STREAM_ID", STREAM_ID)
    setf(b, 0, "Cvf", "AVTP_TIMESTAMP", rng.getrandbits(32))
    setf(b, 0, "Cvf", "FORMAT", 2)
    setf(b, 0, "Cvf", "FORMAT_SUBTYPE", 1)
    setf(b, 0, "Cvf", "STREAM_DATA_LENGTH", n + 4)
    setf(b, 0, "Cvf", "M", rng.getrandbits(1))
    b += struct.pack(">I", rng.getrandbits(32)) + bytes(rng.getrandbits(8) for _ in range(n))
    return b


def aaf_packet(rng, nsamples_bytes=4, stream_id=STREAM_ID):
    b = bytearray(24)
    setf(b, 0, "Pcm", "SUBTYPE", 2)
    setf(b, 0, "Pcm", "SV", 1)
    setf(b, 0, "Pcm", "TV", 1)
    setf(b, 0, "Pcm", "SEQUENCE_NUM", rng.getrandbits(8))
    setf(b, 0, "Pcm", "STREAM_ID", stream_id)
    setf(b, 0, "Pcm", "AVTP_TIMESTAMP", rng.getrandbits(32))
    setf(b, 0, "Pcm", "FORMAT", 4)
    setf(b, 0, "Pcm", "NSR", 5)
    setf(b, 0, "Pcm", "CHANNELS_PER_FRAME", 2)
    setf(b, 0, "Pcm", "BIT_DEPTH", 16)
    setf(b, 0, "Pcm", "STREAM_DATA_LENGTH", nsamples_bytes)
    b += bytes(rng.getrandbits(8) for _ in range(nsamples_bytes))
    return b


def crf_packet(rng, stream_id=0xAABBCCDDEEFF0002, ts0=None):
    b = bytearray(20)
    setf(b, 0, "Crf", "SUBTYPE", 4)
    setf(b, 0, "Crf", "SV", 1)
    setf(b, 0, "Crf", "SEQUENCE_NUM", rng.getrandbits(8))
    setf(b, 0, "Crf", "TYPE", 1)
    setf(b, 0, "Crf", "STREAM_ID", stream_id)
    setf(b, 0, "Crf", "PULL", 0)
    setf(b, 0, "Crf", "BASE_FREQUENCY", 48000)
    setf(b, 0, "Crf", "CRF_DATA_LENGTH", 48)
    setf(b, 0, "Crf", "TIMESTAMP_INTERVAL", 160)
    t = rng.getrandbits(40) if ts0 is None else ts0
    for i in range(6):
        b += struct.pack(">Q", (t + i * 20000000) % (1 << 64))
    return b


# ---- adversarial variants -------------------------------------------------------------------

LEN_FIELDS = {
    "can": [("Tscf", "STREAM_DATA_LENGTH"), ("Ntscf", "NTSCF_DATA_LENGTH"), ("Can", "ACF_MSG_LENGTH"), ("Can", "PAD")],
    "hello": [("Tscf", "STREAM_DATA_LENGTH"), ("Ntscf", "NTSCF_DATA_LENGTH"), ("Gpc", "ACF_MSG_LENGTH")],
    "vss": [("Tscf", "STREAM_DATA_LENGTH"), ("Ntscf", "NTSCF_DATA_LENGTH"), ("Vss", "ACF_MSG_LENGTH")],
    "cvf": [("Cvf", "STREAM_DATA_LENGTH")],
    "aaf": [("Pcm", "STREAM_DATA_LENGTH")],
    "crf": [("Crf", "CRF_DATA_LENGTH"), ("Pcm", "STREAM_DATA_LENGTH")],
}


def mutate(rng, which, pkt, udp, tscf, kinds):
    """one adversarial datagram derived from the valid `pkt`; returns (bytes, kind)"""
    b = bytearray(pkt)
    cf = 4 if udp else 0
    acf = cf + (24 if tscf else 12) if which in ("can", "hello", "vss") else 0
    kind = rng.choice(kinds)
    if kind == "truncate":
        cut = rng.choice([0, 1, 3, 4, cf + 1, cf + 11, cf + 12, cf + 23, cf + 24, acf + 1, acf + 7, acf + 8, acf + 11, acf + 12, acf + 13,
                          acf + 15, acf + 16, acf + 17, len(b) - 1, len(b) - 2, len(b) - 4, rng.randrange(0, len(b) + 1)])
        b = b[:max(0, min(cut, len(b)))]
    elif kind == "length-field":
        fmt, fld = rng.choice(LEN_FIELDS[which])
        w = next(x for x in spec()[fmt]["fields"] if x["enum"].endswith(fld))["width"]
        off = cf if fmt in ("Tscf", "Ntscf") else acf
        cur = 0
        val = rng.choice([0, 1, 2, 3, 4, 5, (1 << w) - 1, (1 << w) - 2, 1 << (w - 1), rng.getrandbits(w), len(b), len(b) - off,
                          (len(b) - off) // 4, (len(b) - off) // 4 + 1, (len(b) - off) // 4 - 1, 375, 376])
        if len(b) >= off + 24:
            setf(b, off, fmt, fld, val)
    elif kind == "second-message-length" and which == "can":
        # corrupt the length of a later message of a multi-message packet
        first_q = ((b[acf] & 1) << 8 | b[acf + 1]) if len(b) > acf + 1 else 0
        at2 = acf + first_q * 4
        if len(b) >= at2 + 16:
            setf(b, at2, "Can", "ACF_MSG_LENGTH", rng.choice([0, 1, 3, 4, 511, rng.getrandbits(9)]))
    elif kind == "type":
        if len(b) > acf:
            b[acf] = rng.getrandbits(8)
    elif kind == "subtype":
        if len(b) > cf:
            b[cf] = rng.choice([0, 1, 2, 3, 4, 5, 0x82, 0x7f, 0xff, rng.getrandbits(8)])
    elif kind == "no-nul":
        # everything behind the headers without a zero byte, datagram filled up to the buffer size
        keep = rng.choice([acf + 8, acf + 12, acf + 14, len(b)])
        b = b[:keep] + bytes(rng.randrange(1, 256) for _ in range(1500 - min(keep, 1500)))
    elif kind == "ones":
        b = bytearray([0xff] * rng.choice([1, 12, 16, 28, 40, 68, 100, 1428, 1500]))
    elif kind == "random":
        b = bytearray(rng.getrandbits(8) for _ in range(rng.choice([0, 1, 7, 12, 16, 24, 28, 40, 48, 68, 100, 300, 1428, 1500])))
    elif kind == "oversize":
        b = b + bytes(rng.getrandbits(8) for _ in range(rng.choice([1, 100, 1500, 3000])))
    elif kind == "flip":
        for _ in range(rng.choice([1, 2, 8])):
            if b:
                b[rng.randrange(len(b))] ^= 1 << rng.randrange(8)
    elif kind == "header-random":
        n = min(len(b), acf + 16)
        for i in range(cf, n):
            if rng.random() < 0.3:
                b[i] = rng.getrandbits(8)
    elif kind == "valid":
        pass
    return bytes(b), kind


KINDS = ["truncate", "truncate", "length-field", "length-field", "length-field", "type", "subtype", "no-nul", "ones", "random",
         "oversize", "flip", "header-random", "valid", "second-message-length"]


# ---- running --------------------------------------------------------------------------------

def fmt_float(bits):
    f = struct.unpack(">f", struct.pack(">I", bits))[0]
    if f != f:
        return "-nan" if bits >> 31 else "nan"
    if f in (float("inf"), float("-inf")):
        return "-inf" if f < 0 else "inf"
    return "%f" % f


def canon_model_stdout(b):
    return re.sub(rb"#([0-9a-f]{8})", lambda m: fmt_float(int(m.group(1), 16)).encode(), b)


def run_real(exe, args, dgrams, timeout=60):
    env = dict(os.environ)
    env.update(common.SAN_ENV)
    txt = "".join("dgram %s\n" % hexs(d) for d in dgrams) + "run\n"
    p = subprocess.run([exe] + args, input=txt, capture_output=True, text=True, env=env, timeout=timeout)
    return p.returncode, p.stdout.splitlines(), p.stderr


def model_outputs(which, modeargs, dgrams):
    lines = []
    for d in dgrams:
        if which == "can":
            lines.append("rx can x %s %s %s" % (modeargs["u"], modeargs["f"], hexs(d)))
        elif which in ("hello", "vss"):
            lines.append("rx %s %s %s" % (which, modeargs["u"], hexs(d)))
        elif which == "crf" and modeargs.get("o") == "talker":
            lines.append("rx crft 2000000 %s" % hexs(d))          # -m 2 (ms), rounded to the media clock period
        else:
            lines.append("rx %s %s" % (which, hexs(d)))
        lines.append("case -")
    if which == "crf" and modeargs.get("o") == "talker":
        lines += ["crf_fire 3", "case -"]                        # the harness lets the periodic timer expire 3 times
    r = subprocess.run([common.DRIVER], input="\n".join(lines) + "\n", capture_output=True, text=True, timeout=300)
    per = []
    cur = []
    for l in r.stdout.splitlines():
        if l.startswith("case "):
            per.append(cur)
            cur = []
        elif l.strip():
            cur.append(l)
    return per


def expected_from_model(which, per):
    """lines the harness should print, assembled from the per-datagram model outputs"""
    if which == "can":
        return [l for p in per for l in p if l.startswith("can ")], None
    out = b""
    for p in per:
        for l in p:
            if l.startswith("out "):
                h = l[4:].strip()
                out += bytes.fromhex(h) if h != "-" else b""
    if which == "vss":
        out = canon_model_stdout(out)
    return None, out


def check(rep, prop, tier, seed):
    rng = common.rng_for(prop, seed)
    thorough = tier == "thorough"
    fmts = ("can", "tscf", "ntscf", "udp", "acfCommon", "commonHeader", "gpc", "vss", "cvf", "pcm", "crf")
    obligations = []
    for n in fmts:
        obligations.append(("checkC01_%s" % n, "checkC01 Spec.%s Gen.%s = true" % (n, n), "by decide +kernel"))
        obligations.append(("checkC03_%s" % n, "checkC03 Spec.%s Gen.%s = true" % (n, n), "by decide +kernel"))
    general = ["O1722.C18_can_bounds", "O1722.C18_can_local", "O1722.C18_can_steps", "O1722.listenLoop_bounds",
               "O1722.listenLoop_steps", "O1722.listenLoop_fuel", "O1722.C18_hello", "O1722.C18_vss", "O1722.C18_cvf",
               "O1722.C18_aaf", "O1722.C18_crf_lookup", "O1722.C18_crf_step", "O1722.C18_crf_talker", "O1722.mclk_unreachable"]
    atoms_expr = "[" + ", ".join("(\"%s\", (atomsC01 Spec.%s Gen.%s) ++ (atomsC03 Spec.%s Gen.%s))" % (n, n, n, n, n) for n in fmts) + "]"
    res = pipeline.proof_stage(rep, prop, ["O1722.Gen.Data", "O1722.Props.Listeners"], obligations, general, atoms_expr)
    common.ensure_driver()
    spec()
    exes = {w: examples.build_listener(w) for w in examples.LISTENERS}
    reps = 200 if thorough else 12
    jobs = []      # (which, label, args, modeargs, dgrams, kinds)
    for which in ("can", "hello", "vss", "cvf", "aaf", "crf"):
        modes = []
        if which == "can":
            modes = [({"u": u, "f": f}, (["-u"] if u == "u" else []) + (["--fd"] if f == "f" else []) + ["--canif", "vcan0"]) for u in "ur" for f in "cf"]
        elif which in ("hello", "vss"):
            modes = [({"u": u}, ["-u"] if u == "u" else (["-i", "eth0", "-d", "aa:bb:cc:dd:ee:ff"] if which == "hello" else ["eth0", "aa:bb:cc:dd:ee:ff"])) for u in "ur"]
        elif which == "crf":
            modes = [({"o": o}, ["-i", "eth0", "-c", "aa:bb:cc:dd:ee:f1", "-a", "aa:bb:cc:dd:ee:f2", "-o", o, "-m", "2"]) for o in ("listener", "talker")]
        else:
            modes = [({}, ["-i", "eth0", "-d", "aa:bb:cc:dd:ee:ff"])]
        for modeargs, args in modes:
            udp = modeargs.get("u") == "u"
            for r in range(reps):
                tscf = rng.random() < 0.5
                def valid():
                    if which == "can":
                        return bytes(can_packet(rng, tscf, udp, modeargs["f"] == "f"))
                    if which == "hello":
                        return bytes(hello_packet(rng, tscf, udp))
                    if which == "vss":
                        return bytes(vss_packet(rng, tscf, udp))
                    if which == "cvf":
                        return bytes(cvf_packet(rng, rng.choice([1, 5, 100, 1399, 1400])))
                    if which == "aaf":
                        return bytes(aaf_packet(rng))
                    return bytes(rng.choice([crf_packet(rng), aaf_packet(rng, 24), crf_packet(rng, ts0=rng.getrandbits(34) * 8)]))
                dg, kinds = [], []
                for _ in range(rng.choice([1, 1, 2, 3, 6])):
                    d, k = mutate(rng, which, valid() if which != "cvf" or rng.random() < 0.8 else bytes(cvf_packet(rng, 0)), udp, tscf, KINDS)
                    dg.append(d)
                    kinds.append(k)
                if which == "crf":
                    # a recognisable last datagram: right size, wrong stream id -> the listener must say so
                    last = bytes(crf_packet(rng, stream_id=0x1122334455667788))
                else:
                    last = valid()
                dg.append(last)
                kinds.append("final-valid")
                jobs.append((which, "%s:%s" % (which, "".join(modeargs.values()) or "-"), args, modeargs, dg, kinds))
            # every length field x a grid of boundary values (with and without a NUL-free tail filling
            # the buffer), delivered in one run per (field, tail)
            for tscf in ((True, False) if which in ("can", "hello", "vss") else (False,)):
                cfo = 4 if udp else 0
                acfo = cfo + (24 if tscf else 12) if which in ("can", "hello", "vss") else 0
                for fmt, fld in LEN_FIELDS[which]:
                    if (fmt == "Tscf" and not tscf) or (fmt == "Ntscf" and tscf) or fmt == "Can" and fld == "PAD" and not thorough:
                        continue
                    if which == "crf" and fmt == "Pcm":
                        mk = lambda: bytes(aaf_packet(rng, 24))
                    elif which == "crf":
                        mk = lambda: bytes(crf_packet(rng))
                    else:
                        mk = {"can": lambda: bytes(can_packet(rng, tscf, udp, modeargs.get("f") == "f", 2)),
                              "hello": lambda: bytes(hello_packet(rng, tscf, udp)), "vss": lambda: bytes(vss_packet(rng, tscf, udp, True)),
                              "cvf": lambda: bytes(cvf_packet(rng, 40)), "aaf": lambda: bytes(aaf_packet(rng))}[which]
                    w = next(x for x in spec()[fmt]["fields"] if x["enum"].endswith(fld))["width"]
                    off = cfo if fmt in ("Tscf", "Ntscf") else acfo
                    for tail in (("plain", "no-nul-tail") if which in ("hello", "vss", "can") else ("plain",)):
                        dg = []
                        for val in sorted({0, 1, 2, 3, 4, 5, 6, 7, 8, 9, (1 << w) - 1, (1 << w) - 2, 1 << (w - 1), 375, 376, 23, 24, 25, 26, 100, 101}
                                          | {v for base in (len(mk()) - off, (len(mk()) - off) // 4, len(mk()) - acfo, (len(mk()) - acfo) // 4) for v in (base - 1, base, base + 1)}):
                            if val < 0 or val >= (1 << w):
                                continue
                            b = bytearray(mk())
                            setf(b, off, fmt, fld, val)
                            if tail == "no-nul-tail":
                                keep = min(len(b), acfo + 16)
                                b = b[:keep] + bytes(rng.randrange(1, 256) for _ in range(1500 - keep))
                            dg.append(bytes(b))
                        last = bytes(crf_packet(rng, stream_id=0x1122334455667788)) if which == "crf" else mk()
                        if which == "cvf":
                            last = bytes(cvf_packet(rng, 40))
                        jobs.append((which, "%s:%s" % (which, "".join(modeargs.values()) or "-"), args, modeargs, dg + [last],
                                     ["length-grid:%s.%s:%s" % (fmt, fld, tail)] * len(dg) + ["final-valid"]))
            if which == "crf":
                # runs that exercise the media-clock bookkeeping: CRF timestamps, then AAF packets on / near / off the grid
                for _ in range(20 if thorough else 6):
                    T = rng.choice([125000 * rng.randrange(1, 1 << 20), rng.getrandbits(40), (1 << 32) - 125000 * rng.randrange(1, 200)])
                    dg = [bytes(crf_packet(rng, ts0=T))]
                    k = 0
                    for _ in range(rng.randrange(2, 12)):
                        k += rng.choice([1, 1, 1, 2, 5, 200])
                        v = bytearray(aaf_packet(rng, 24))
                        setf(v, 0, "Pcm", "AVTP_TIMESTAMP", (T + 125000 * k + rng.choice([0, 0, 0, 5208, 5209, -5208, -5209, 9000, -60000])) % (1 << 32))
                        dg.append(bytes(v))
                        if rng.random() < 0.2:
                            dg.append(bytes(crf_packet(rng, ts0=T + 125000 * (k + 1))))
                    jobs.append((which, "%s:%s" % (which, "".join(modeargs.values())), args, modeargs,
                                 dg + [bytes(crf_packet(rng, stream_id=0x1122334455667788))], ["media-clock-run"] * len(dg) + ["final-valid"]))
                # the alignment window at its edges: one exact packet (search succeeds), then consecutive
                # media-clock periods with offsets just inside / outside +-5208 ns
                for offs in ((5208, 5209, 5208, -5208, -5209, 0), (5209, 0, -5209, -5208), (20833, -20833, 5208)):
                    T = 125000 * rng.randrange(1, 1 << 20)
                    dg = [bytes(crf_packet(rng, ts0=T))]
                    for k, j in enumerate((0,) + offs):
                        v = bytearray(aaf_packet(rng, 24))
                        setf(v, 0, "Pcm", "AVTP_TIMESTAMP", (T + 125000 * (k + 1) + j) % (1 << 32))
                        dg.append(bytes(v))
                    jobs.append((which, "%s:%s" % (which, "".join(modeargs.values())), args, modeargs,
                                 dg + [bytes(crf_packet(rng, stream_id=0x1122334455667788))], ["alignment-window"] * len(dg) + ["final-valid"]))
                # the 32-bit presentation time at its boundaries, on and off the media-clock grid, with and without queued CRF timestamps
                for pre in ((), (0,), (8,), (125000 * 3,), ((1 << 32) - 125000 * 2,)):
                    for ts in (0, 1, 7, 8, 124999, 125000, 125001, (1 << 31) - 1, 1 << 31, (1 << 32) - 125001, (1 << 32) - 125000, (1 << 32) - 124999,
                               (1 << 32) - 8, (1 << 32) - 2, (1 << 32) - 1):
                        v = bytearray(aaf_packet(rng, 24))
                        setf(v, 0, "Pcm", "AVTP_TIMESTAMP", ts)
                        dg = [bytes(crf_packet(rng, ts0=t0)) for t0 in pre] + [bytes(v), bytes(aaf_packet(rng, 24))]
                        jobs.append((which, "%s:%s" % (which, "".join(modeargs.values())), args, modeargs,
                                     dg + [bytes(crf_packet(rng, stream_id=0x1122334455667788))], ["timestamp-grid"] * len(dg) + ["final-valid"]))
            # every truncation point of one valid packet, delivered in one run
            for tscf in ((True, False) if which in ("can", "hello", "vss") else (False,)):
                base = {"can": lambda: bytes(can_packet(rng, tscf, udp, modeargs.get("f") == "f", 2)),
                        "hello": lambda: bytes(hello_packet(rng, tscf, udp)), "vss": lambda: bytes(vss_packet(rng, tscf, udp, True)),
                        "cvf": lambda: bytes(cvf_packet(rng, 40)), "aaf": lambda: bytes(aaf_packet(rng)),
                        "crf": lambda: bytes(crf_packet(rng))}[which]()
                cuts = range(0, len(base)) if thorough else sorted({0, 1, len(base) - 1} | set(rng.randrange(0, len(base)) for _ in range(12)))
                dg = [base[:k] for k in cuts]
                last = bytes(crf_packet(rng, stream_id=0x1122334455667788)) if which == "crf" else base
                jobs.append((which, "%s:%s" % (which, "".join(modeargs.values()) or "-"), args, modeargs, dg + [last], ["truncate-sweep"] * len(dg) + ["final-valid"]))
    # fixed worst cases (run first): the inputs that broke the original listeners
    def fixed(which, label, args, modeargs, dgs):
        jobs.insert(0, (which, label, args, modeargs, dgs, ["corpus"] * len(dgs)))
    r0 = common.rng_for(prop + "corpus", 0)
    v = bytearray(can_packet(r0, False, False, False, 1)); setf(v, 12, "Can", "ACF_MSG_LENGTH", 0)
    fixed("can", "can:rc", ["--canif", "vcan0"], {"u": "r", "f": "c"}, [bytes(v), bytes(can_packet(r0, False, False, False, 1))])
    v = bytearray(can_packet(r0, False, False, False, 1)); setf(v, 0, "Ntscf", "NTSCF_DATA_LENGTH", 2047)
    fixed("can", "can:rc", ["--canif", "vcan0"], {"u": "r", "f": "c"}, [bytes(v), bytes(can_packet(r0, False, False, False, 1))])
    v = bytearray(can_packet(r0, True, False, False, 1)); setf(v, 0, "Tscf", "STREAM_DATA_LENGTH", 65535)
    fixed("can", "can:rc", ["--canif", "vcan0"], {"u": "r", "f": "c"}, [bytes(v), bytes(can_packet(r0, False, False, False, 1))])
    v = bytearray(cf_header(r0, False, False, 272)) + can_msg(r0, True, 64)[:16] + bytes(256); setf(v, 12, "Can", "ACF_MSG_LENGTH", 68); setf(v, 12, "Can", "PAD", 1)
    fixed("can", "can:rc", ["--canif", "vcan0"], {"u": "r", "f": "c"}, [bytes(v), bytes(can_packet(r0, False, False, False, 1))])
    fixed("hello", "hello:r", ["-i", "eth0", "-d", "aa:bb:cc:dd:ee:ff"], {"u": "r"},
          [bytes(hello_packet(r0, False, False, b"x" * 80))[:20] + bytes([0x41] * 1480), bytes(hello_packet(r0, False, False))])
    fixed("vss", "vss:r", ["eth0", "aa:bb:cc:dd:ee:ff"], {"u": "r"}, [bytes(vss_packet(r0, False, False, True)), bytes(vss_packet(r0, False, False, False))])
    v = bytearray(vss_packet(r0, False, False, True, path=b"abc")); v[24:26] = b"\xff\xff"
    fixed("vss", "vss:r", ["eth0", "aa:bb:cc:dd:ee:ff"], {"u": "r"}, [bytes(v), bytes(vss_packet(r0, False, False, False))])
    v = bytearray(cvf_packet(r0, 10)); setf(v, 0, "Cvf", "STREAM_DATA_LENGTH", 3)
    fixed("cvf", "cvf:-", ["-i", "eth0", "-d", "aa:bb:cc:dd:ee:ff"], {}, [bytes(v), bytes(cvf_packet(r0, 10))])
    v = bytearray(cvf_packet(r0, 1400)); setf(v, 0, "Cvf", "STREAM_DATA_LENGTH", 1405)
    fixed("cvf", "cvf:-", ["-i", "eth0", "-d", "aa:bb:cc:dd:ee:ff"], {}, [bytes(v) + b"\x00", bytes(cvf_packet(r0, 10))])
    fixed("aaf", "aaf:-", ["-i", "eth0", "-d", "aa:bb:cc:dd:ee:ff"], {}, [bytes(aaf_packet(r0))[:27], bytes(aaf_packet(r0))])
    crfargs = lambda o: ["-i", "eth0", "-c", "aa:bb:cc:dd:ee:f1", "-a", "aa:bb:cc:dd:ee:f2", "-o", o, "-m", "2"]
    v = bytearray(aaf_packet(r0, 24)); setf(v, 0, "Pcm", "AVTP_TIMESTAMP", 12345677)
    fixed("crf", "crf:listener", crfargs("listener"), {"o": "listener"}, [bytes(v), bytes(crf_packet(r0, stream_id=0x1122334455667788))])
    fixed("crf", "crf:talker", crfargs("talker"), {"o": "talker"}, [bytes([0xff] * 68), bytes(crf_packet(r0, stream_id=0x1122334455667788))])

    def work(job):
        which, label, args, modeargs, dg, kinds = job
        try:
            rc, lines, err = run_real(exes[which], args, dg)
        except subprocess.TimeoutExpired:
            rc, lines, err = 96, ["WATCHDOG (harness timeout)"], ""
        per = model_outputs(which, modeargs, dg)
        return rc, lines, err, per

    with ThreadPoolExecutor(max_workers=14) as ex:
        results = list(ex.map(work, jobs))
    seen = set()
    dist = {}
    total = 0
    diff_groups = {}
    samples = []
    for job, (rc, lines, err, per) in zip(jobs, results):
        which, label, args, modeargs, dg, kinds = job
        total += len(dg)
        for k in kinds:
            dist["%s/%s" % (which, k)] = dist.get("%s/%s" % (which, k), 0) + 1
        key = None
        detail = ""
        if rc == 96 or any(l.startswith("WATCHDOG") for l in lines):
            key = "%s:does-not-finish" % label
        elif rc != 0:
            m = re.search(r"(AddressSanitizer: [\w-]+|runtime error: [^\n]{0,80}|SEGV|DEADLYSIGNAL)", err)
            key = "%s:crash:%s" % (label, (m.group(1) if m else "rc%d" % rc).split(" on ")[0].replace(" ", "_")[:60])
        elif not lines or lines[-1] != "blocked":
            key = "%s:listener-exits" % label
            detail = lines[-1] if lines else ""
        elif which == "crf":
            if "CRF: Stream ID mismatch" not in err.strip().splitlines()[-1:][0] if err.strip() else True:
                key = "%s:last-datagram-not-processed" % label
            elif modeargs.get("o") == "listener":
                # listener mode: the alignment reports must be the Model's (media-clock bookkeeping)
                _, exp_out = expected_from_model(which, per)
                got = b"".join(bytes.fromhex(l[7:].strip()) for l in lines if l.startswith("stdout "))
                if got != exp_out:
                    key = "%s:differs-from-model" % label
            else:
                # talker mode: the AAF packets sent at the (virtual) timer expirations must be the Model's
                exp_sent = [l for p_ in per for l in p_ if l.startswith("sent ")]
                if [l for l in lines if l.startswith("sent ")] != exp_sent:
                    key = "%s:differs-from-model" % label
        else:
            exp_can, exp_out = expected_from_model(which, per)
            if which == "can":
                got = [l for l in lines if l.startswith("can")]
                if got != exp_can:
                    key = "%s:differs-from-model" % label
                elif not [l for l in per[-1] if l.startswith("can ")]:
                    key = "%s:generator-final-datagram-not-valid" % label
            else:
                got = b"".join(bytes.fromhex(l[7:].strip()) for l in lines if l.startswith("stdout "))
                if got != exp_out:
                    key = "%s:differs-from-model" % label
                elif not any(l.startswith("out ") and l.strip() != "out -" for l in per[-1]):
                    key = "%s:generator-final-datagram-not-valid" % label
        if len(samples) < 3 and key is None and which != "crf":
            samples.append({"listener": label, "datagram_kinds": kinds, "real_output": lines[:3]})
        if key and key not in seen:
            seen.add(key)
            rep.violation(key, {"kind": "listener", "listener": which, "argv": args, "datagram_kinds": kinds,
                                "datagrams_hex": [hexs(d) for d in dg], "real_listener_output": lines[-12:],
                                "model_per_datagram": per, "stderr_tail": err[-1500:], "detail": detail,
                                "replay_hint": "build/ex/ex_l_%s %s  with stdin lines `dgram <hex>` per datagram then `run`" % (which, " ".join(args))})
            diff_groups[which] = [0]
    pipeline.report_proof_failures(rep, prop, res, diff_groups)
    rep.cov.update(evaluations=total, distinct_nontrivial=len(dist),
                   rule="datagram sequences (1-6 adversarial + 1 final valid) per listener x mode; adversarial = valid packet with one of: "
                        "truncation at a header/message boundary, a length field at 0/small/exact+-1/beyond datagram/max, wrong ACF type or subtype, "
                        "no NUL up to 1500 octets, all-ones, random bytes, oversize, bit flips, randomised header; real main() under ASan+UBSan+watchdog; "
                        "outputs (CAN frames, stdout, packets sent) compared with the Model; distinct = (listener, variant kind)",
                   input_distribution=dist, failed_atoms=["%s:%s" % x for x in res["failed_atoms"]])
    rep.cov["samples"] = samples + [{"theorem": "C18_can_bounds"}]
    rep.assumptions += ["sockets, timers, CAN device and clock are harness stand-ins (harness/ex/vio.c); datagrams longer than the listener's "
                        "buffer are truncated by recv as the kernel does; the CRF example's periodic timer is let expire 3 times per run"]
