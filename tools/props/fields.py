"""C01 / C02 — field reads and writes.

Proof: Props/Fields.lean (getField_spec, setField_spec, specSet_bits, specSet_frame,
specGet_specSet, C01_format, C02_format) + regenerated obligations checkC01/checkC02 per format.
Tie: translator (tables, enumerators, accessor wiring and widths) + correspondence check of
the real accessors and of raw Avtp_GetField/Avtp_SetField against the Spec/Model."""
import pipeline
import common
from common import hexs


def setbits(buf, first, w, val):
    """write val (w bits) MSB-first at wire bit `first` of bytearray buf"""
    for k in range(w):
        bit = (val >> (w - 1 - k)) & 1
        i = first + k
        if i // 8 >= len(buf):
            continue
        m = 0x80 >> (i % 8)
        if bit:
            buf[i // 8] |= m
        else:
            buf[i // 8] &= ~m & 0xff


def paths_for(f, fld, setter=False):
    ps = ["g"]
    if fld["setter" if setter else "getter"]:
        ps.append("d")
    leg = f.get("legacy")
    if leg:
        ps.append("l")
        if any(t == fld["enum"] for _, t in leg["aliases"]):
            ps.append("a")
    return ps


def formats_of(spec, only=None):
    return [f for f in spec["formats"] if only is None or f["name"] in only]


def get_cases(spec, rng, n_random, only=None):
    cs = common.Cases()
    for f in formats_of(spec, only):
        H = f["headerLen"]
        for i, fld in enumerate(f["fields"]):
            w, first = fld["width"], fld["first"]
            for p in paths_for(f, fld):
                if p in ("l", "a") and f["legacy"]["valBits"] < w:
                    continue
                pats = []
                b = bytearray(H); setbits(b, first, w, (1 << w) - 1); pats.append(("field-ones", b))
                b = bytearray([0xff] * H); setbits(b, first, w, 0); pats.append(("field-zeros", b))
                for j in range(max(0, first - 2), min(8 * H, first + w + 2)):
                    b = bytearray(H); setbits(b, j, 1, 1); pats.append(("walk1@%d" % j, b))
                for _ in range(n_random):
                    pats.append(("random", bytearray(rng.getrandbits(8) for _ in range(H))))
                for pn, b in pats:
                    cs.add(["buf a " + hexs(b), "get a 0 %s %d %s" % (f["name"], i, p), "dump a"],
                           {"fmt": f["name"], "field": fld["enum"], "path": p, "pattern": pn})
    return cs


def set_cases(spec, rng, n_random, only=None):
    cs = common.Cases()
    for f in formats_of(spec, only):
        H = f["headerLen"]
        for i, fld in enumerate(f["fields"]):
            w = fld["width"]
            for p in paths_for(f, fld, setter=True):
                vals = [("0", 0), ("1", 1), ("max", (1 << w) - 1), ("2^w", 1 << w), ("2^64-1", (1 << 64) - 1),
                        ("msb", 1 << (w - 1) if w else 0)]
                for _ in range(n_random):
                    vals.append(("rand-fit", rng.getrandbits(w) if w else 0))
                    vals.append(("rand-64", rng.getrandbits(64)))
                # values related to what the field holds already (same low half / low byte,
                # one bit flipped, identical): a writer that compares before writing, caches, or
                # short-cuts on partial equality shows only here
                if w >= 2:
                    cur = rng.getrandbits(w)
                    for rn, nv in (("same-low-half", cur % (1 << (w // 2))), ("same-low-byte", (cur & 0xff) | (rng.getrandbits(w) & ~0xff)),
                                   ("msb-flipped", cur ^ (1 << (w - 1))), ("identical", cur), ("low-32-kept", (cur % (1 << 32)) if w > 32 else cur ^ 1)):
                        nv %= 1 << w
                        if p in ("l", "a") and f["legacy"]["valBits"] == 32:
                            nv %= 1 << 32
                        bg = bytearray(rng.getrandbits(8) for _ in range(H + 4))
                        setbits(bg, 16 + fld["first"], w, cur)
                        cs.add(["buf a " + hexs(bg), "set a 2 %s %d %s %d" % (f["name"], i, p, nv), "dump a",
                                "get a 2 %s %d %s" % (f["name"], i, "g")],
                               {"fmt": f["name"], "field": fld["enum"], "path": p, "pattern": "related:" + rn})
                for vn, v in vals:
                    v %= 1 << 64          # the API takes uint64_t: every value is < 2^64
                    if p in ("l", "a") and f["legacy"]["valBits"] == 32:
                        v %= 1 << 32
                    for bgn, bg in (("zeros", bytes(H + 4)), ("ones", bytes([0xff] * (H + 4))),
                                    ("random", bytes(rng.getrandbits(8) for _ in range(H + 4)))):
                        # PDU at offset 2 of an exact-extent buffer: 2 bytes before, 2 after
                        cs.add(["buf a " + hexs(bg), "set a 2 %s %d %s %d" % (f["name"], i, p, v), "dump a",
                                "get a 2 %s %d %s" % (f["name"], i, "g")],
                               {"fmt": f["name"], "field": fld["enum"], "path": p, "pattern": vn + "/" + bgn})
    return cs


def raw_cases(rng, thorough):
    """every descriptor shape the generic reader/writer accepts: offset 0..31 x width 0..64,
    at quadlet 0 and 1, on random / all-ones / all-zero backgrounds"""
    cs = common.Cases()
    for o in range(32):
        for b in range(65):
            for q in ((0, 1, 3) if thorough else (rng.choice((0, 1)),)):
                n = 4 * (q + (o + b + 31) // 32) + (4 if b == 0 else 0)
                for bgn in (("random", "ones", "zeros") if thorough else (rng.choice(("random", "ones")),)):
                    bg = bytes(rng.getrandbits(8) for _ in range(n)) if bgn == "random" else bytes([0xff if bgn == "ones" else 0] * n)
                    v = rng.getrandbits(64) if bgn != "zeros" else (1 << 64) - 1
                    # the PDU at byte offset `off` of a (16-aligned) buffer: every alignment of the quadlets
                    off = (o + b + q) % 4 if not thorough else rng.randrange(0, 4)
                    lead = bytes(rng.getrandbits(8) for _ in range(off))
                    cs.add(["buf a " + hexs(lead + bg), "uget a %d %d %d %d L" % (off, q, o, b), "sget a %d %d %d" % (off, 32 * q + o, b),
                            "uset a %d %d %d %d L %d" % (off, q, o, b, v), "dump a",
                            "buf a " + hexs(lead + bg), "sset a %d %d %d %d" % (off, 32 * q + o, b, v), "dump a"],
                           {"shape": [q, o, b], "pattern": bgn})
    return cs


def run_differential(rep, prop, spec, exe, cs, keyfn, what):
    bad = common.differential(exe, cs)
    keys = {}
    for i, kind, c_lines, l_lines, err in bad:
        tag = cs.tags[i]
        key = keyfn(tag)
        if key in keys:
            continue
        keys[key] = True
        rep.violation(key, {"kind": "real-code-differs-from-spec" if kind == "diff" else "sanitizer-abort",
                            "what": what, "case": tag, "ops": cs.cases[i], "observed_real_code": c_lines,
                            "expected_by_spec": l_lines, "stderr": err[-1500:]})
    return bad


def raw_self_check(cs, exe):
    """For raw cases the C harness answers `sget/sset` lines with bad-op (it has no Spec);
    so they are compared inside each case: uget==sget and both dumps equal. Done on the
    Lean side only for spec lines; here we post-process both outputs."""


def check(rep, prop, tier, seed, replay=None):
    rng = common.rng_for(prop, seed)
    thorough = tier == "thorough"
    is_get = prop == "C01"
    chk, atoms, thm = ("checkC01", "atomsC01", "C01_format") if is_get else ("checkC02", "atomsC02", "C02_format")
    spec = pipeline.spec_names()
    obligations = []
    for f in spec["formats"]:
        n = pipeline.lname(f["file"])
        obligations.append(("check_%s" % n, "%s Spec.%s Gen.%s = true" % (chk, n, n), "by decide +kernel"))
        obligations.append(("holds_%s" % n, "_", "%s Spec.%s Gen.%s check_%s" % (thm, n, n, n)))
    # `holds_*` has its statement inferred: emit as `theorem name : T := proof` needs T; use abbreviation below
    obligations = [(n, s, p) for (n, s, p) in obligations if not n.startswith("holds_")]
    general = (["O1722.getField_spec", "O1722.getField_depends_only_on_field", "O1722.C01_format",
                "O1722.genericGet_sound", "O1722.dedicatedGet_sound", "O1722.getLoop_eq_specGet",
                "O1722.specGet_congr"] if is_get else
               ["O1722.setField_spec", "O1722.specSet_bits", "O1722.specSet_frame", "O1722.specGet_specSet",
                "O1722.specGet_specSet_disjoint", "O1722.getField_setField", "O1722.C02_format",
                "O1722.genericSet_sound", "O1722.dedicatedSet_sound", "O1722.setLoop_eq_specSet"])
    atoms_expr = "[" + ", ".join("(\"%s\", %s Spec.%s Gen.%s)" % (f["name"], atoms, pipeline.lname(f["file"]), pipeline.lname(f["file"]))
                                 for f in spec["formats"]) + "]"
    res = pipeline.proof_stage(rep, prop, ["O1722.Gen.Data", "O1722.Props.Fields"], obligations, general, atoms_expr)
    # ---- correspondence ----------------------------------------------------------------
    spec, exe = common.build_harness("asan")
    n_random = 24 if thorough else 3
    cs = (get_cases if is_get else set_cases)(spec, rng, n_random)
    bad = run_differential(rep, prop, spec, exe, cs,
                           lambda t: "%s:%s:%s" % (t["fmt"], t["field"], {"g": "generic", "d": "dedicated", "l": "legacy", "a": "legacy-alias"}[t["path"]]),
                           "field %s through the real accessor vs the Spec's bit range" % ("read" if is_get else "write"))
    diff_groups = {}
    for i, *_ in bad:
        diff_groups.setdefault(cs.tags[i]["fmt"], []).append(i)
    # raw Utils.c shapes: real Avtp_GetField/SetField vs the hand Model, Model vs Spec
    rc = raw_cases(rng, thorough)
    raw_bad = raw_check(rep, prop, exe, rc)
    cir_vs_real(rep, prop, exe, rc, 1200 if thorough else 260)
    c_text_accessors(rep, prop, spec, exe, rng)
    cbmc_all_inputs(rep, prop, spec, thorough)
    pipeline.report_proof_failures(rep, prop, res, diff_groups)
    # ---- evidence ----------------------------------------------------------------------
    cells = set()
    for t in cs.tags:
        cells.add((t["fmt"], t["field"], t["path"], t["pattern"].split("@")[0].split("/")[0]))
    rep.cov.update(evaluations=len(cs.cases) + len(rc.cases), distinct_nontrivial=len(cells),
                   rule="cases = (format x field x access path x bit pattern) on exact-extent heap buffers under ASan/UBSan, "
                        "plus every descriptor shape (offset 0..31 x width 0..64) for raw Avtp_GetField/SetField; a cell is "
                        "distinct by (format, field, path, pattern class); every cell drives at least one set bit through the field",
                   formats=len(spec["formats"]), raw_shapes=len(rc.cases), exhaustive=False,
                   failed_atoms=["%s:%s" % x for x in res["failed_atoms"]])
    rep.cov["samples"] = [{"ops": cs.cases[k], "tag": cs.tags[k]} for k in (0, len(cs.cases) // 2, len(cs.cases) - 1)] + \
        [{"obligation": "theorem check_can : %s Spec.can Gen.can = true := by decide" % chk}]
    rep.assumptions += ["C integer conversions and enum widths as reported by gcc/clang on this host",
                        "the correspondence of Model.getField/setField with Utils.c is sampled over buffer contents "
                        "(exhaustive over descriptor shapes); independently CBMC decides the bit-level statement on the real "
                        "Utils.c for all contents and values per descriptor shape (bounded model checking: supports the tie, "
                        "is not the proof)"]


def cbmc_all_inputs(rep, prop, spec, thorough):
    """CBMC on the REAL Utils.c: for each descriptor shape, for ALL buffer contents and ALL 64-bit
    values, C01/C02 as stated bit by bit (harness/cbmc/utils_all_inputs.c), in both host byte
    orders.  quick: every (quadlet, offset, bits) row of the 23 tables; thorough: plus every
    offset 0..31 x width 1..64.  Results are cached per content of Utils.c + harness (C01 and C02
    share one sweep).  A failing assertion's trace gives the replay input."""
    import hashlib
    import json
    import os
    import re
    import subprocess
    from concurrent.futures import ThreadPoolExecutor
    R = common.REPO
    harness = os.path.join(common.VERIF, "harness", "cbmc", "utils_all_inputs.c")
    srcs = [os.path.join(R, "src", "avtp", "Utils.c"), os.path.join(R, "include", "avtp", "Utils.h"),
            os.path.join(R, "include", "avtp", "Byteorder.h"), harness]
    h = hashlib.sha256(b"".join(open(x, "rb").read() for x in srcs)).hexdigest()[:16]
    shapes = set()
    for f in spec["formats"]:
        for fld in f["fields"]:
            shapes.add((fld["first"] // 32, fld["first"] % 32, fld["width"]))
    if thorough:
        shapes |= {(0, o, b) for o in range(32) for b in range(1, 65)}
    shapes = sorted(shapes)
    cache_path = os.path.join(common.BUILD, "cbmc_utils_%s_%s.json" % (h, "t" if thorough else "q"))
    if os.path.exists(cache_path):
        results = json.load(open(cache_path))
    else:
        def one(job):
            (q, o, b), endian = job
            cmd = ["cbmc", "-DQ=%d" % q, "-DOFF=%d" % o, "-DBITS=%d" % b, "-I", os.path.join(R, "include"), harness,
                   os.path.join(R, "src", "avtp", "Utils.c"), "--unwind", "400", "--unwinding-assertions", "--no-standard-checks", "--trace"]
            if endian == "big":
                cmd += ["--big-endian", "-D__BYTE_ORDER__=__ORDER_BIG_ENDIAN__"]
            r = subprocess.run(cmd, capture_output=True, text=True, timeout=600)
            out = r.stdout
            if "VERIFICATION SUCCESSFUL" in out:
                return [q, o, b, endian, "ok", [], None]
            failed = sorted(set(re.findall(r"\] line \d+ (C0[12]: [^:]+): FAILURE", out)))
            if not failed:
                return [q, o, b, endian, "tool-error", [], out[-600:] + r.stderr[-300:]]
            buf = {}
            for m in re.finditer(r"^\s*buf\[(\d+)l?\]=(\d+)", out, re.M):
                buf.setdefault(int(m.group(1)), int(m.group(2)))
            mv = re.search(r"^\s*v=(\d+)", out, re.M)
            n = 4 + 4 * (q + 4)
            pdu = bytes(buf.get(j, 0) for j in range(4, n))
            return [q, o, b, endian, "fail", failed, {"pdu_hex": pdu.hex(), "value": int(mv.group(1)) if mv else 0}]
        jobs = [(s_, e) for s_ in shapes for e in ("little", "big")]
        with ThreadPoolExecutor(max_workers=14) as ex:
            results = list(ex.map(one, jobs))
        json.dump(results, open(cache_path, "w"))
    n_ok = 0
    for q, o, b, endian, verdict, failed, cex in results:
        if verdict == "ok":
            n_ok += 1
            continue
        if verdict == "tool-error":
            raise common.ToolError("cbmc could not decide shape (%d,%d,%d) %s: %s" % (q, o, b, endian, cex))
        mine = [f for f in failed if f.startswith(prop)]
        if not mine:
            continue
        key = "Utils:all-inputs:%s:field-spans-%d-quadlets:%s" % (endian, (o + b + 31) // 32, "starts-mid-quadlet" if o else "quadlet-aligned")
        ops = ["buf a " + cex["pdu_hex"], "uget a 0 %d %d %d L" % (q, o, b), "uset a 0 %d %d %d L %d" % (q, o, b, cex["value"]), "dump a"]
        rep.violation(key, {"kind": "real-code-violates-the-bit-level-statement", "descriptor": {"quadlet": q, "offset": o, "bits": b},
                            "host_byte_order": endian, "failed_assertions": mine, "ops": ops,
                            "note": "counterexample from CBMC's trace on the real Utils.c; the ops replay it natively (little-endian host)"})
    rep.cov["cbmc_all_inputs"] = {"shapes": len(shapes), "byte_orders": 2, "verified": n_ok, "runs": len(results),
                                  "statement": "for all buffer contents and all 64-bit values: result/stored bits = wire bits of the field, nothing else changes",
                                  "cmd": "cbmc -DQ=q -DOFF=o -DBITS=b -I /repo/include harness/cbmc/utils_all_inputs.c /repo/src/avtp/Utils.c --unwind 400 --unwinding-assertions --no-standard-checks [--big-endian -D__BYTE_ORDER__=__ORDER_BIG_ENDIAN__]"}
    return len(results) - n_ok


def c_text_accessors(rep, prop, spec, exe, rng):
    """EVERY dedicated getter (C01) / setter (C02) / current initialiser (C04) of every format: the
    serialised C text (Gen/Cir.lean, with the regenerated tables as read-only data) run by the Lean C
    semantics vs the compiled function on a random header — the correspondence check of the serialiser +
    semantics for the functions the accessor-level code theorems (Refine/Accessors*.lean) speak about."""
    import cirrun
    import pipeline
    gen = pipeline.translate()
    if gen.get("failed") or gen.get("cir", {}).get("failed"):
        return
    ok, log = common.lake_build(["O1722.Gen.Cir", "O1722.Gen.Data", "O1722.CSem.Eval"])
    if not ok:
        return
    outside = {o[1] for o in gen.get("cir", {}).get("outside", [])}
    lines, cs, meta = [], common.Cases(), []
    enumval = {}
    for gf in gen.get("files", []):
        for n_, v_ in (gf.get("field_enum") or {}).get("enumerators", []):
            enumval[n_] = v_
    for f in spec["formats"]:
        H = f["headerLen"]
        if prop == "C12":
            leg = f.get("legacy")
            if not leg:
                continue
            vb = leg["valBits"]
            for i, fld in enumerate(f["fields"]):
                if fld["enum"] not in enumval or fld["width"] > vb:
                    continue
                ev = enumval[fld["enum"]]
                # legacy setter: bytes afterwards
                if leg["setFn"] not in outside:
                    bg = bytes(rng.getrandbits(8) for _ in range(H + 4))
                    v = rng.getrandbits(max(1, min(fld["width"], vb)))
                    lines.append((leg["setFn"], [65536 + 2, ev, v], None, bg, [], f["file"]))
                    cs.add(["buf a " + hexs(bg), "set a 2 %s %d l %d" % (f["name"], i, v), "dump a"])
                    meta.append((f["name"], leg["setFn"], fld["enum"]))
                # legacy getter: the result location is the 8 octets behind the header copy
                if leg["getFn"] not in outside:
                    bg = bytes(rng.getrandbits(8) for _ in range(H + 2)) + bytes(8)
                    lines.append((leg["getFn"], [65536 + 2, ev, 65536 + 2 + H], None, bg, [], f["file"]))
                    cs.add(["buf a " + hexs(bg[:H + 2]), "get a 2 %s %d l" % (f["name"], i)])
                    meta.append((f["name"], leg["getFn"], "get:%d:%d" % (H, vb)))
            continue
        if prop == "C04":
            fn = f.get("initFn")
            if not fn or fn in outside:
                continue
            bg = bytes(rng.getrandbits(8) for _ in range(H + 4))
            lines.append((fn, [65536 + 2], None, bg, [], f["file"]))
            cs.add(["buf a " + hexs(bg), "init a 2 %s c" % f["name"], "dump a"])
            meta.append((f["name"], fn, "init"))
            continue
        for i, fld in enumerate(f["fields"]):
            fn = fld["getter"] if prop == "C01" else fld["setter"]
            if not fn or fn in outside:
                continue
            bg = bytes(rng.getrandbits(8) for _ in range(H + 4))
            if prop == "C01":
                lines.append((fn, [65536 + 2], None, bg, [], f["file"]))
                cs.add(["buf a " + hexs(bg), "get a 2 %s %d d" % (f["name"], i)])
            else:
                v = rng.getrandbits(max(1, min(fld["width"], 64)))
                lines.append((fn, [65536 + 2, v], None, bg, [], f["file"]))
                cs.add(["buf a " + hexs(bg), "set a 2 %s %d d %d" % (f["name"], i, v), "dump a"])
            meta.append((f["name"], fn, fld["enum"]))
    res = cirrun.run_lines(lines, "cirrun_acc_" + prop)
    rcode, c_out, err = common.run_c(exe, cs.render())
    got = common.split_cases(c_out)
    nbad = 0
    for k, (fmt, fn, what) in enumerate(meta):
        cl = [x for x in got.get(k, []) if not x.startswith("r ")]
        if prop == "C12" and what.startswith("get:"):
            H_, vb_ = (int(z) for z in what.split(":")[1:])
            stored = bytes.fromhex(res[k][1])[2 + H_: 2 + H_ + vb_ // 8] if res[k][1] not in ("stuck", "") else b""
            ok_ = cl[:1] == ["v %d" % int.from_bytes(stored, "little")] and res[k][0] == "0"
        elif prop == "C01":
            ok_ = cl[:1] == ["v " + res[k][0]]
        else:
            ok_ = bool(cl) and cl[-1].split()[-1] == res[k][1]
        if not ok_:
            nbad += 1
            rep.violation("%s:c-text-vs-real:%s" % (fmt, fn),
                          {"kind": "serialised-C-text-under-the-Lean-C-semantics-differs-from-the-compiled-code", "function": fn,
                           "ops": cs.cases[k], "observed_real_code": got.get(k), "c_text_under_CSem": list(res[k])})
    rep.cov["c_text_vs_real_accessors"] = {"functions": len(meta), "disagreements": nbad,
                                           "what": "every dedicated %s of every format: Gen/Cir.lean interpreted by CSem/Eval.lean vs the compiled function, random header"
                                                   % {"C01": "getter", "C02": "setter", "C04": "current-API initialiser", "C12": "legacy get/set wrapper x field"}[prop]}


def cir_vs_real(rep, prop, exe, rc, n):
    """The serialised C text (Gen/Cir.lean) run by the Lean C semantics vs the real compiled
    Avtp_GetField/Avtp_SetField on the same raw cases: the correspondence check of the
    serialiser + semantics the code-level theorems rest on."""
    import cirrun
    import pipeline
    gen = pipeline.translate()
    if gen.get("failed") or gen.get("cir", {}).get("failed"):
        return
    ok, log = common.lake_build(["O1722.Gen.Cir", "O1722.CSem.Eval"])
    if not ok:
        return      # reported by the code-level stage as a refinement that does not check
    step = max(1, len(rc.cases) // n)
    idx = list(range(0, len(rc.cases), step))[:n]
    cases = []
    for i in idx:
        ops = rc.cases[i]
        buf = bytes.fromhex(ops[0].split()[2]) if ops[0].split()[2] != "-" else b""
        t = ops[1].split()          # uget a off q o b L
        v = int(ops[3].split()[7])  # uset a off q o b L v
        cases.append((int(t[3]), int(t[4]), int(t[5]), list(buf), int(t[2]), v))
    res = cirrun.utils_cases(cases)
    sub = common.Cases()
    for i in idx:
        sub.add(rc.cases[i][:5])
    rcode, c_out, err = common.run_c(exe, sub.render())
    c_cases = common.split_cases(c_out)
    nbad = 0
    for k, i in enumerate(idx):
        cl = [x for x in c_cases.get(k, []) if x != "bad-op"]
        want = ("v " + res[k][0], res[k][1])
        got = (cl[0] if cl else "?", cl[1].split()[-1] if len(cl) > 1 else "?")
        if want != got:
            nbad += 1
            q, o, b = rc.tags[i]["shape"]
            rep.violation("Utils:c-text-vs-real:field-spans-%d-quadlets:%s" % ((o + b + 31) // 32, "starts-mid-quadlet" if o else "quadlet-aligned"),
                          {"kind": "serialised-C-text-under-the-Lean-C-semantics-differs-from-the-compiled-code",
                           "ops": rc.cases[i][:5], "observed_real_code": cl, "c_text_under_CSem": list(res[k]),
                           "note": "'stuck' = the C semantics met undefined behaviour (signed overflow, shift out of range, NULL) or ran out of fuel"})
    rep.cov["c_text_vs_real"] = {"cases": len(idx), "disagreements": nbad,
                                 "what": "Gen/Cir.lean (Avtp_GetField, Avtp_SetField) interpreted by CSem/Eval.lean vs the compiled library, raw descriptor shapes"}


def raw_check(rep, prop, exe, rc):
    """real Avtp_GetField/SetField == hand Model (uget/uset lines), and Model == Spec
    (sget/sset lines, Lean side only)."""
    rcode, c_out, err = common.run_c(exe, rc.render())
    l_out = common.run_lean(rc.render())
    c_cases, l_cases = common.split_cases(c_out), common.split_cases(l_out)
    nbad = 0
    for i in range(len(rc.cases)):
        cl = [x for x in c_cases.get(i, []) if x != "bad-op"]
        ll = l_cases.get(i, [])
        # lean lines: [uget v, sget v, dump after uset, dump after sset]; C lines: [uget v, dump after uset, dump(original)]
        ok = len(ll) == 4 and len(cl) >= 2 and cl[0] == ll[0] and cl[1] == ll[2] and ll[0] == ll[1] and ll[2] == ll[3]
        if not ok:
            nbad += 1
            q, o, b = rc.tags[i]["shape"]
            kind = "model-vs-spec" if (len(ll) == 4 and (ll[0] != ll[1] or ll[2] != ll[3])) else "real-vs-model"
            rep.violation("Utils:%s:field-spans-%d-quadlets:%s" % (kind, (o + b + 31) // 32, "starts-mid-quadlet" if o else "quadlet-aligned"),
                          {"kind": kind, "what": "raw Avtp_GetField/Avtp_SetField on descriptor (quadlet,offset,bits)",
                           "ops": rc.cases[i], "observed_real_code": c_cases.get(i), "model_and_spec": ll,
                           "stderr": err[-800:] if rcode else ""})
    return nbad
