"""C13 — byte-order helpers.

Proof: Props/Byteorder.lean (bswapN_testBit as bit permutations in Lemmas/Byteorder.lean,
involutions, byte reversal, memory images on either host, helper sets mirror images).
Tie: translator (both `#if` branches of Byteorder.h -> Gen/Byteorder.lean; the swaps must be
the Model's expressions, the helper table the Model's table) + native little-endian
correspondence (exhaustive for 16-bit values)."""
import os
import pipeline
import common
import byteorder as bo_tr


# the host byte order may enter the library only through the twelve modelled conversion helpers
ENDIAN_SURFACE = [
    ("host_order_enters_through_the_helpers_only",
     "Gen.endianDependentNames = [\"Avtp_BeToCpu16\", \"Avtp_BeToCpu32\", \"Avtp_BeToCpu64\", \"Avtp_CpuToBe16\", \"Avtp_CpuToBe32\", "
     "\"Avtp_CpuToBe64\", \"Avtp_CpuToLe16\", \"Avtp_CpuToLe32\", \"Avtp_CpuToLe64\", \"Avtp_LeToCpu16\", \"Avtp_LeToCpu32\", \"Avtp_LeToCpu64\"]",
     "by decide"),
    ("no_host_order_test_outside_Byteorder_h", "Gen.endianMentions = []", "by decide"),
]


def regenerate():
    with common.Lock("translate"):
        try:
            bo = bo_tr.translate(common.REPO)
        except Exception as ex:
            raise common.ToolError("Byteorder.h does not translate: %s" % ex)
        with common.Lock("lake"):
            bo_tr.emit(bo, os.path.join(common.LEAN, "O1722", "Gen", "Byteorder.lean"))
    return bo


def check(rep, prop, tier, seed):
    rng = common.rng_for(prop, seed)
    thorough = tier == "thorough"
    with common.Lock("translate"):
        try:
            bo = bo_tr.translate(common.REPO)
        except Exception as ex:
            raise common.ToolError("Byteorder.h does not translate: %s" % ex)
        with common.Lock("lake"):
            bo_tr.emit(bo, os.path.join(common.LEAN, "O1722", "Gen", "Byteorder.lean"))
    obligations = [
        ("swap16", "∀ x, Gen.bswap16 x = bswap16 x", "fun _ => rfl"),
        ("swap32", "∀ x, Gen.bswap32 x = bswap32 x", "fun _ => rfl"),
        ("swap64", "∀ x, Gen.bswap64 x = bswap64 x", "fun _ => rfl"),
        ("helpers_little", "Gen.helpers_little = modelHelpers .little", "by decide"),
        ("helpers_big", "Gen.helpers_big = modelHelpers .big", "by decide"),
        ("all_shapes_understood", "Gen.byteorderOpaque = []", "by decide"),
    ] + ENDIAN_SURFACE
    general = ["O1722.bswap16_testBit", "O1722.bswap32_testBit", "O1722.bswap64_testBit",
               "O1722.bswap16_invol", "O1722.bswap32_invol", "O1722.bswap64_invol",
               "O1722.bytesLE_bswap16", "O1722.bytesLE_bswap32", "O1722.bytesLE_bswap64",
               "O1722.bytesBE_bswap16", "O1722.bytesBE_bswap32", "O1722.bytesBE_bswap64",
               "O1722.memImage_cpuToBe16", "O1722.memImage_cpuToBe32", "O1722.memImage_cpuToBe64",
               "O1722.memImage_cpuToLe16", "O1722.memImage_cpuToLe32", "O1722.memImage_cpuToLe64",
               "O1722.beCpu16_invol", "O1722.beCpu32_invol", "O1722.beCpu64_invol",
               "O1722.leCpu16_invol", "O1722.leCpu32_invol", "O1722.leCpu64_invol",
               "O1722.helpers_mirror16", "O1722.helpers_mirror32", "O1722.helpers_mirror64",
               "O1722.modelHelpers_sound", "O1722.beCpu32_load", "O1722.store_beCpu32"]
    atoms_expr = ("[(\"Byteorder\", [(\"helpers-little\", decide (Gen.helpers_little = modelHelpers .little)), "
                  "(\"helpers-big\", decide (Gen.helpers_big = modelHelpers .big)), "
                  "(\"shapes\", decide (Gen.byteorderOpaque = [])), "
                  "(\"swap16-sample\", (List.range 65536).all (fun x => Gen.bswap16 x == bswap16 x))])]")
    res = pipeline.proof_stage(rep, prop, ["O1722.Gen.Byteorder", "O1722.Props.Byteorder"], obligations, general, atoms_expr)
    spec, exe = common.build_harness("asan")
    cs = common.Cases()
    helpers = ["Avtp_Bswap%d", "Avtp_CpuToLe%d", "Avtp_CpuToBe%d", "Avtp_LeToCpu%d", "Avtp_BeToCpu%d"]
    # 16-bit: exhaustive
    for h in helpers:
        lines = ["bo %s %d" % (h % 16, x) for x in range(0, 65536)]
        cs.add(lines, {"helper": h % 16, "class": "exhaustive-16"})
    n = 20000 if thorough else 1500
    for bits in (32, 64):
        for h in helpers:
            vals = [0, 1, (1 << bits) - 1, 1 << (bits - 1), 0x0102030405060708 % (1 << bits), 0xff, 0xff00, 0xff << (bits - 8)]
            vals += [1 << k for k in range(bits)] + [((1 << bits) - 1) ^ (1 << k) for k in range(bits)]
            vals += [rng.getrandbits(bits) for _ in range(n)]
            cs.add(["bo %s %d" % (h % bits, x) for x in vals], {"helper": h % bits, "class": "structured+random"})
    bad = common.differential(exe, cs)
    diff_groups = {}
    for i, kind, c_lines, l_lines, err in bad:
        tag = cs.tags[i]
        k = next((j for j, (a, b) in enumerate(zip(c_lines, l_lines)) if a != b), 0)
        rep.violation("Byteorder:" + tag["helper"], {"kind": "helper-differs-from-spec", "op": cs.cases[i][k] if k < len(cs.cases[i]) else None,
                                                      "observed_real_code": c_lines[k:k + 1], "expected_by_spec": l_lines[k:k + 1],
                                                      "host": "little-endian (native)", "stderr": err[-800:]})
        diff_groups.setdefault("Byteorder", []).append(i)
    pipeline.report_proof_failures(rep, prop, res, diff_groups)
    total = sum(len(c) for c in cs.cases)
    rep.cov.update(evaluations=total, distinct_nontrivial=len(cs.cases) * 3,
                   rule="15 functions (3 swaps + 12 helpers of the little-endian branch) x {all 65536 16-bit values; walking-one/zero, byte "
                        "patterns and random 32/64-bit values}; result value and memory image compared with the Model; distinct = (function, value class)",
                   exhaustive_16bit=True, failed_atoms=["%s:%s" % x for x in res["failed_atoms"]])
    rep.cov["samples"] = [{"op": "bo Avtp_CpuToBe32 287454020", "expect": "v 1144201745 11223344"},
                          {"obligation": "theorem swap32 : ∀ x, Gen.bswap32 x = bswap32 x := fun _ => rfl"}]
    rep.assumptions += ["the big-endian branch of Byteorder.h is tied by the translator (AST with -D__BYTE_ORDER__=__ORDER_BIG_ENDIAN__) "
                        "and the theorems for e = big; it cannot be executed natively on this little-endian host (see C14)"]
