"""C07 / C08 / C09 / C10 — the VSS codec, finalisation and string-array packing.

Proof: Props/Vss.lean about the hand Model of Vss.c (Model/Vss.lean) and the reference
encoders of Spec/Vss.lean.
Tie: correspondence check of the real functions against the Model on exact-extent heap
objects under ASan, with a non-symmetric oracle: the reference bytes are also computed here,
independently, from the protocol description."""
import struct
import pipeline
import common
from common import hexs

SCALARS = {0: 1, 1: 1, 2: 2, 3: 2, 4: 4, 5: 4, 6: 8, 7: 8, 8: 1, 9: 4, 0xA: 8}
BLOBS = [0xB, 0x80, 0x81, 0x88, 0x8B]
ELEMS = {0x82: 2, 0x83: 2, 0x84: 4, 0x85: 4, 0x89: 4, 0x86: 8, 0x87: 8, 0x8A: 8}
RESERVED = [0xC, 0x10, 0x7F, 0x8C, 0xFF]


def be(k, n):
    return int(n % (1 << (8 * k))).to_bytes(k, "big")


def vss_header(rng, mode, dtype):
    """12-byte VSS header: type 0x42, random other fields, given addr_mode / datatype"""
    h = bytearray(rng.getrandbits(8) for _ in range(12))
    h[0] = (0x42 << 1) | (h[0] & 1)
    h[2] = (h[2] & 0xE7) | ((mode & 3) << 3)     # bits 19..20
    h[3] = dtype & 0xff
    return h


def interesting_scalar(rng, k):
    return rng.choice([0, 1, (1 << (8 * k)) - 1, 1 << (8 * k - 1), 0x0102030405060708 % (1 << (8 * k)),
                       0x7fc00001 if k == 4 else 0x7ff8000000000001 % (1 << (8 * k)),   # NaN payloads
                       0x80000000 if k == 4 else rng.getrandbits(8 * k), rng.getrandbits(8 * k)])


def structured_bytes(rng, n, force_nul=False):
    """byte strings the C string functions would mistreat: embedded / leading / trailing NUL,
    all zero, all ones — next to plain random content"""
    kind = "nul" if force_nul else rng.choice(["random", "random", "nul", "nul-first", "nul-last", "zeros", "ones"])
    b = bytearray(rng.getrandbits(8) for _ in range(n))
    if n == 0:
        return bytes(b)
    if kind == "nul":
        for i in range(n):
            if b[i] == 0:
                b[i] = 0x41
        b[n // 3] = 0
        if n > 4:
            b[n // 2] = 0
    elif kind == "nul-first":
        b[0] = 0
    elif kind == "nul-last":
        b[n - 1] = 0
    elif kind == "zeros":
        b = bytearray(n)
    elif kind == "ones":
        b = bytearray([0xff] * n)
    return bytes(b)


def gen_path(rng, mode, thorough):
    if mode == 1:
        return ("sid", rng.choice([0, 1, (1 << 32) - 1, rng.getrandbits(32)]))
    n = rng.choice([0, 1, 2, 3, 13, 255, 256, rng.randrange(0, 64), 2031, 2040, 3000] + ([1000, 4093] if thorough else []))
    return ("path", structured_bytes(rng, n))


def long_paths(rng, thorough=True):
    return [("path", bytes(rng.getrandbits(8) for _ in range(n))) for n in ((65533, 65534, 65535) if thorough else (65535,))]


def enc_path(p):
    return be(4, p[1]) if p[0] == "sid" else be(2, len(p[1])) + p[1]


def gen_value(rng, code, thorough, force_nul=False):
    if code in SCALARS:
        return ("s", interesting_scalar(rng, SCALARS[code]))
    if code in BLOBS:
        n = rng.choice(([5, 9, 40] if force_nul else [0, 1, 2, 3, 255, 256, rng.randrange(0, 80)]) + ([3000] if thorough else []))
        return ("b", structured_bytes(rng, n, force_nul))
    k = ELEMS[code]
    cnt = rng.choice([0, 1, 2, 3, 7, rng.randrange(0, 40)] + ([300] if thorough else []))
    return ("e", k, [interesting_scalar(rng, k) for _ in range(cnt)])


def enc_value(code, v):
    if v[0] == "s":
        return be(SCALARS[code], v[1])
    if v[0] == "b":
        return be(2, len(v[1])) + v[1]
    k, xs = v[1], v[2]
    return be(2, k * len(xs)) + b"".join(be(k, x) for x in xs)


def setdata_line(off, v, odd_extra=0):
    if v[0] == "s":
        return "vss_setdata a %d s %d" % (off, v[1])
    if v[0] == "b":
        return "vss_setdata a %d b %d %s" % (off, len(v[1]), hexs(v[1]))
    k, xs = v[1], v[2]
    return "vss_setdata a %d e %d %s" % (off, k * len(xs) + odd_extra, ",".join(str(x) for x in xs) if xs else "-")


def c07_cases(rng, thorough):
    cs = common.Cases()
    expect = {}
    codes = list(SCALARS) + BLOBS + list(ELEMS)
    for mode in (0, 1):
        for code in codes:
            for rep in range(4 if thorough else 2):
                p = gen_path(rng, mode, thorough)
                v = gen_value(rng, code, thorough, force_nul=(rep == 0))
                ep, ev = enc_path(p), enc_value(code, v)
                off = rng.choice([0, 0, 4])
                trail = rng.choice([0, 0, 3])
                size = off + 12 + len(ep) + len(ev) + trail
                hdr = vss_header(rng, mode, code)
                bg = bytearray(rng.getrandbits(8) for _ in range(size))
                bg[off:off + 12] = hdr
                pl = "vss_setpath a %d %d %s %d" % ((off, len(p[1]), hexs(p[1]), 0) if p[0] == "path" else (off, 0, "-", p[1]))
                ops = ["buf a " + hexs(bg), pl, setdata_line(off, v), "dump a", "vss_calc a %d" % off]
                idx = len(cs.cases)
                cs.add(ops, {"what": "encode", "mode": mode, "code": code, "class": v[0], "len": len(ev)})
                want = bytearray(bg)
                want[off + 12:off + 12 + len(ep) + len(ev)] = ep + ev
                expect[idx] = ["d " + hexs(want), "v %d" % len(ep)]
        # reserved address modes: the path writer must write nothing
    # systematic: (a) every variable-length datatype with an EMPTY value and the interoperable path
    # EMPTY, on an all-ones background (a stale length prefix must be overwritten); (b) every array
    # datatype with two elements behind interoperable paths of every length 0..8 (every alignment of
    # the first element)
    extra = []
    for code in BLOBS + list(ELEMS):
        v0 = ("b", b"") if code in BLOBS else ("e", ELEMS[code], [])
        extra.append((0, code, ("path", b""), v0, "ones"))
        extra.append((0, code, ("path", b"abc"), v0, "ones"))
        extra.append((1, code, ("sid", 7), v0, "ones"))
    extra.append((0, 4, ("path", b""), ("s", 0x01020304), "ones"))
    for code in ELEMS:
        k = ELEMS[code]
        for plen in range(0, 9):
            vals = [0x3fc00000, 0xc0490fdb] if k == 4 else [interesting_scalar(rng, k), interesting_scalar(rng, k)]
            extra.append((0, code, ("path", structured_bytes(rng, plen)), ("e", k, vals), "random"))
    for mode, code, p, v, bgk in extra:
        ep, ev = enc_path(p), enc_value(code, v)
        size = 12 + len(ep) + len(ev) + 3
        hdr = vss_header(rng, mode, code)
        bg = bytearray([0xff] * size) if bgk == "ones" else bytearray(rng.getrandbits(8) for _ in range(size))
        bg[0:12] = hdr
        pl = "vss_setpath a 0 %d %s %d" % ((len(p[1]), hexs(p[1]), 0) if p[0] == "path" else (0, "-", p[1]))
        ops = ["buf a " + hexs(bg), pl, setdata_line(0, v), "dump a", "vss_calc a 0"]
        idx = len(cs.cases)
        cs.add(ops, {"what": "encode", "mode": mode, "code": code, "class": "systematic-" + v[0], "len": len(ev)})
        want = bytearray(bg)
        want[12:12 + len(ep) + len(ev)] = ep + ev
        expect[idx] = ["d " + hexs(want), "v %d" % len(ep)]
    for p in long_paths(rng, thorough):       # the longest paths the 16-bit prefix can describe
        code = 4
        v = ("s", 0xdeadbeef)
        ep, ev = enc_path(p), enc_value(code, v)
        hdr = vss_header(rng, 0, code)
        bg = bytearray(rng.getrandbits(8) for _ in range(12 + len(ep) + len(ev)))
        bg[0:12] = hdr
        ops = ["buf a " + hexs(bg), "vss_setpath a 0 %d %s 0" % (len(p[1]), hexs(p[1])), setdata_line(0, v), "dump a", "vss_calc a 0"]
        idx = len(cs.cases)
        cs.add(ops, {"what": "encode", "mode": 0, "code": code, "class": "longest-path-%d" % len(p[1]), "len": len(ev)})
        want = bytearray(bg)
        want[12:12 + len(ep) + len(ev)] = ep + ev
        expect[idx] = ["d " + hexs(want), "v %d" % len(ep)]
    for mode in (2, 3):
        for code in (0, 4, 0xB, 0x82):
            hdr = vss_header(rng, mode, code)
            bg = bytearray(rng.getrandbits(8) for _ in range(12 + 24))
            bg[0:12] = hdr
            ops = ["buf a " + hexs(bg), "vss_setpath a 0 3 616263 77", "dump a", "vss_calc a 0"]
            idx = len(cs.cases)
            cs.add(ops, {"what": "reserved-mode", "mode": mode, "code": code, "class": "-", "len": 0})
            expect[idx] = ["d " + hexs(bg), "v 0"]
    # reserved datatypes: the value writer must write nothing
    for code in RESERVED:
        for mode in (0, 1):
            hdr = vss_header(rng, mode, code)
            p = gen_path(rng, mode, False)
            ep = enc_path(p)
            bg = bytearray(rng.getrandbits(8) for _ in range(12 + len(ep) + 16))
            bg[0:12] = hdr
            bg[12:12 + len(ep)] = ep
            ops = ["buf a " + hexs(bg), "vss_setdata a 0 s 12345", "dump a"]
            idx = len(cs.cases)
            cs.add(ops, {"what": "reserved-datatype", "mode": mode, "code": code, "class": "-", "len": 0})
            expect[idx] = ["d " + hexs(bg)]
    return cs, expect


def show_val(v):
    if v[0] == "s":
        return "s %d" % v[1]
    if v[0] == "b":
        return "b %d %s" % (len(v[1]), hexs(v[1]))
    return "e %d %s" % (v[1] * len(v[2]), ",".join(str(x) for x in v[2]) if v[2] else "-")


def c08_cases(rng, thorough):
    """decode messages produced by the REFERENCE encoder (here), both phases, at several
    buffer positions; message placed at the very end of an exact-extent buffer"""
    cs = common.Cases()
    expect = {}
    codes = list(SCALARS) + BLOBS + list(ELEMS)
    for mode in (0, 1):
        for code in codes:
            for rep in range(4 if thorough else 2):
                p = gen_path(rng, mode, thorough)
                v = gen_value(rng, code, thorough, force_nul=(rep == 0))
                ep, ev = enc_path(p), enc_value(code, v)
                off = rng.choice([0, 2, 4, 5])
                hdr = vss_header(rng, mode, code)
                msg = bytes(hdr) + ep + ev
                bg = bytes(rng.getrandbits(8) for _ in range(off)) + msg     # nothing after the message
                ops = ["buf a " + hexs(bg), "vss_calc a %d" % off, "vss_getpath a %d" % off,
                       "vss_getdata a %d 0" % off, "vss_getdata a %d 1" % off, "dump a"]
                idx = len(cs.cases)
                cs.add(ops, {"what": "decode", "mode": mode, "code": code, "class": v[0], "len": len(ev)})
                pexp = ("sid %d" % p[1]) if p[0] == "sid" else ("path %d %s" % (len(p[1]), hexs(p[1])))
                full = show_val(v)
                if v[0] == "s":
                    ph1 = full
                else:
                    ph1 = full.split()[0] + " " + full.split()[1] + " -"
                expect[idx] = ["v %d" % len(ep), pexp, ph1, full, "d " + hexs(bg)]
    for p in long_paths(rng, thorough):
        code = 4
        v = ("s", 0xdeadbeef)
        ep, ev = enc_path(p), enc_value(code, v)
        hdr = vss_header(rng, 0, code)
        bg = bytes(hdr) + ep + ev
        ops = ["buf a " + hexs(bg), "vss_calc a 0", "vss_getpath a 0", "vss_getdata a 0 1", "dump a"]
        idx = len(cs.cases)
        cs.add(ops, {"what": "decode", "mode": 0, "code": code, "class": "longest-path-%d" % len(p[1]), "len": len(ev)})
        expect[idx] = ["v %d" % len(ep), "path %d %s" % (len(p[1]), hexs(p[1])), show_val(v), "d " + hexs(bg)]
    return cs, expect


def calc_c_text_vs_real(rep, exe, rng, n):
    """Gen/Cir.lean's Avtp_Vss_CalcVssPathLength (dedicated getter, Vss_ReadBe16, Avtp_BeToCpu16 called by
    name) run by the Lean C semantics vs the compiled function: every address mode, random headers and
    length prefixes."""
    import cirrun
    gen = pipeline.translate()
    if gen.get("failed") or gen.get("cir", {}).get("failed"):
        return
    ok, log = common.lake_build(["O1722.Gen.Cir", "O1722.Gen.Data", "O1722.CSem.Eval"])
    if not ok:
        return
    mc, cs = [], common.Cases()
    for k in range(n):
        buf = bytearray(rng.getrandbits(8) for _ in range(16))
        buf[2] = (buf[2] & 0xE7) | ((k % 4) << 3)          # addr_mode: all four codes
        mc.append(("Avtp_Vss_CalcVssPathLength", [65536], list(buf), [], "src/avtp/acf/custom/Vss.c"))
        cs.add(["buf a " + hexs(buf), "vss_calc a 0"])
    res = cirrun.mem_cases(mc, "cirrun_calc")
    rcode, c_out, err = common.run_c(exe, cs.render())
    got = common.split_cases(c_out)
    nbad = 0
    for k in range(n):
        if got.get(k, [])[:1] != ["v " + res[k][0]]:
            nbad += 1
            rep.violation("Vss:calc:c-text-vs-real:mode=%d" % (k % 4),
                          {"kind": "serialised-C-text-under-the-Lean-C-semantics-differs-from-the-compiled-code", "ops": cs.cases[k],
                           "observed_real_code": got.get(k), "c_text_under_CSem": list(res[k])})
    rep.cov["c_text_vs_real"] = {"cases": n, "disagreements": nbad,
                                 "what": "Gen/Cir.lean (Avtp_Vss_CalcVssPathLength and everything it calls) interpreted by CSem/Eval.lean vs the compiled function"}


def pad_c_text_vs_real(rep, exe, cs, expect, n):
    """Gen/Cir.lean's Avtp_Vss_Pad (and what it calls) run by the Lean C semantics vs the reference
    result computed in c09_cases (which the compiled code is compared with in the same run)."""
    import cirrun
    gen = pipeline.translate()
    if gen.get("failed") or gen.get("cir", {}).get("failed"):
        return
    ok, log = common.lake_build(["O1722.Gen.Cir", "O1722.Gen.Data", "O1722.CSem.Eval"])
    if not ok:
        return
    pads = [i for i in sorted(expect) if cs.tags[i].get("what") == "pad"]
    step = max(1, len(pads) // n)
    idx = pads[::step][:n]
    mc = []
    for i in idx:
        buf = bytes.fromhex(cs.cases[i][0].split()[2])
        mc.append(("Avtp_Vss_Pad", [65536, cs.tags[i]["len"]], list(buf), [], "src/avtp/acf/custom/Vss.c"))
    res = cirrun.mem_cases(mc, "cirrun_pad")
    nbad = 0
    for k, i in enumerate(idx):
        want = expect[i][0].split()[1]
        if res[k][1] != want:
            nbad += 1
            rep.violation("Vss:pad:c-text-vs-reference:len%%4=%d" % (cs.tags[i]["len"] % 4),
                          {"kind": "serialised-C-text-under-the-Lean-C-semantics-differs-from-the-reference-result", "ops": cs.cases[i][:3],
                           "c_text_under_CSem": list(res[k]), "reference": want})
    rep.cov["c_text_vs_real"] = {"cases": len(idx), "disagreements": nbad,
                                 "what": "Gen/Cir.lean (Avtp_Vss_Pad and everything it calls) interpreted by CSem/Eval.lean vs the reference bytes the compiled code is held to"}


def c09_cases(rng, thorough):
    cs = common.Cases()
    expect = {}
    for ln in range(12, 2045):
        if not thorough and ln > 80 and ln % 7 and ln < 2030:
            continue
        pad = (4 - ln % 4) % 4
        trail = rng.choice([0, 3, 16])
        bgk = rng.choice(["random", "ones"])
        size = ln + pad + trail
        bg = bytearray(rng.getrandbits(8) for _ in range(size)) if bgk == "random" else bytearray([0xff] * size)
        ops = ["buf a " + hexs(bg), "vss_pad a 0 %d" % ln, "dump a", "get a 0 Vss 1 d", "get a 0 Vss 2 d"]
        idx = len(cs.cases)
        cs.add(ops, {"what": "pad", "len": ln, "class": "len%%4=%d" % (ln % 4)})
        want = bytearray(bg)
        for k in range(pad):
            want[ln + k] = 0
        q = (ln + 3) // 4
        # acf_msg_length: bits 7..15, pad: bits 16..17
        want[0] = (want[0] & 0xFE) | (q >> 8)
        want[1] = q & 0xff
        want[2] = (want[2] & 0x3F) | (pad << 6)
        expect[idx] = ["d " + hexs(want), "v %d" % q, "v %d" % pad]
    # all 512 values of the length field through the dedicated accessors
    vals = list(range(512))
    for chunk in range(0, 512, 64):
        ops = ["buf a " + hexs(bytes(12))]
        exp = []
        for v in vals[chunk:chunk + 64]:
            ops += ["set a 0 Vss 1 d %d" % v, "get a 0 Vss 1 d"]
            exp.append("v %d" % v)
        idx = len(cs.cases)
        cs.add(ops, {"what": "length-accessors", "len": chunk, "class": "512-values"})
        expect[idx] = exp
    return cs, expect


def c10_cases(rng, thorough):
    cs = common.Cases()
    expect = {}
    shapes = [[], [0], [0, 0, 0], [1], [5, 0, 7], [300], [255, 256, 1]]
    shapes += [[rng.randrange(0, 12) for _ in range(rng.randrange(0, 30))] for _ in range(40 if thorough else 16)]
    shapes += [[2, 0, 1, 65, 3], [4] * 7, [1] * 64, [0] * 40, [1000, 2000, 3], [65531], [32766, 32765]]
    shapes += [[rng.randrange(0, 4) for _ in range(n)] for n in ((255, 256, 257, 300, 400) if thorough else (256, 300))]
    for lens in shapes:
        strs = [structured_bytes(rng, n) for n in lens]
        packed = b"".join(be(2, len(s)) + s for s in strs)
        if len(packed) > 65535:
            continue
        n = len(strs)
        ser = "vss_ser %d %d" % (len(packed), n) + "".join(" %d %s" % (len(s), hexs(s)) for s in strs)
        ops = [ser, "vss_count %d %s" % (len(packed), hexs(packed))]
        exp = ["b %d %s" % (len(packed), hexs(packed)), "v %d" % n]
        for req in sorted({0, n, max(0, n - 1), n + 1, n + 4}):
            for hv in (0, 1):
                ops.append("vss_deser %d %s %d %d" % (len(packed), hexs(packed), req, hv))
                got = strs[:min(req, n)]
                exp.append("n" + "".join(" %d:%s" % (len(s), hexs(s) if hv else "-") for s in got) + " ." * (req - len(got)))
        idx = len(cs.cases)
        cs.add(ops, {"what": "string-array", "len": n, "class": "n=%d" % n if n in (0, 1) else ("n>255" if n > 255 else "n<=255")})
        expect[idx] = exp
    return cs, expect


GEN = {"C07": c07_cases, "C08": c08_cases, "C09": c09_cases, "C10": c10_cases}


SCALAR_C = [(0x0, "data_uint8", "uint8_t", 1), (0x1, "data_int8", "int8_t", 1), (0x2, "data_uint16", "uint16_t", 2),
            (0x3, "data_int16", "int16_t", 2), (0x4, "data_uint32", "uint32_t", 4), (0x5, "data_int32", "int32_t", 4),
            (0x6, "data_uint64", "uint64_t", 8), (0x7, "data_int64", "int64_t", 8), (0x8, "data_bool", "uint8_t", 1),
            (0x9, "data_float", "float", 4), (0xA, "data_double", "double", 8)]


def cbmc_scalars(rep, prop, thorough):
    """CBMC on the REAL VSS codec: per scalar datatype and addressing mode, for ALL values, path
    contents / static ids and prior buffer contents, C07 (bytes written) and C08 (decoding inverts,
    does not write) as stated in harness/cbmc/vss_scalar_all_inputs.c; both host byte orders."""
    import os
    R = common.REPO
    harness = os.path.join(common.VERIF, "harness", "cbmc", "vss_scalar_all_inputs.c")
    lib = [os.path.join(R, "src", "avtp", "acf", "custom", "Vss.c"), os.path.join(R, "src", "avtp", "Utils.c")]
    hs = lib + [harness, os.path.join(R, "include", "avtp", "acf", "custom", "Vss.h"), os.path.join(R, "include", "avtp", "Byteorder.h"),
                os.path.join(R, "include", "avtp", "Defines.h")]
    # quick: native byte order; thorough: both (the big-endian run is what C14 would otherwise only sample)
    jobs = [[dt, member, ctype, k, interop, e] for (dt, member, ctype, k) in SCALAR_C for interop in (0, 1)
            for e in (("little", "big") if thorough else ("little",))]

    def cmd(job):
        dt, member, ctype, k, interop, e = job
        c = ["cbmc", "-DDT=%d" % dt, "-DMEMBER=%s" % member, "-DCTYPE=%s" % ctype, "-DK=%d" % k, "-DINTEROP=%d" % interop, "-DPLEN=5",
             "-I", os.path.join(R, "include"), harness] + lib + ["--unwind", "48", "--unwinding-assertions", "--no-standard-checks", "--object-bits", "12"]
        return c + (["--big-endian", "-D__BYTE_ORDER__=__ORDER_BIG_ENDIAN__", "-DHOST_BE"] if e == "big" else [])
    results = common.cbmc_sweep("vssscalar", hs, jobs, cmd, "C0[78]", "t" if thorough else "q")
    n_ok = 0
    for job, verdict, failed, trace in results:
        if verdict == "ok":
            n_ok += 1
            continue
        mine = [f for f in failed if f.startswith(prop)]
        if not mine:
            continue
        dt, member, ctype, k, interop, e = job
        rep.violation("Vss:scalar:all-inputs:%s:%s:%s" % (e, "interop" if interop else "static-id", member),
                      {"kind": "real-code-violates-the-statement", "datatype": dt, "member": member, "host_byte_order": e,
                       "addressing": "interoperable path of 5 octets" if interop else "static id", "failed_assertions": mine,
                       "cbmc_trace_tail": trace[-2500:],
                       "replay_cmd": " ".join(cmd(job)) + " --trace"}, no_input=False)
    rep.cov["cbmc_all_inputs"] = {"scalar_datatypes": len(SCALAR_C), "addressing_modes": 2, "byte_orders": 2 if thorough else 1, "verified": n_ok, "runs": len(results),
                                  "statement": "for all values, path contents / ids and prior buffer contents: C07 bytes written, C08 decoding (harness/cbmc/vss_scalar_all_inputs.c)"}


def cbmc_strarr(rep, thorough):
    """CBMC on the REAL string-array helpers: N strings of all lengths 0..MAXL and all contents,
    every requested count around N: C10 as stated in harness/cbmc/vss_strarr_all_inputs.c, with
    CBMC's own bounds and pointer checks on (reads behind the exact-extent block are violations)."""
    import os
    R = common.REPO
    harness = os.path.join(common.VERIF, "harness", "cbmc", "vss_strarr_all_inputs.c")
    lib = [os.path.join(R, "src", "avtp", "acf", "custom", "Vss.c"), os.path.join(R, "src", "avtp", "Utils.c")]
    hs = lib + [harness, os.path.join(R, "include", "avtp", "acf", "custom", "Vss.h"), os.path.join(R, "include", "avtp", "Byteorder.h")]
    maxl = 4 if thorough else 3
    jobs = sorted({(n, req, maxl, e) for n in range(0, (5 if thorough else 4)) for req in (0, max(0, n - 1), n, n + 1, n + 4)
                   for e in (("little", "big") if thorough else ("little",))})
    jobs = [list(j) for j in jobs]

    def cmd(job):
        n, req, ml, e = job
        c = ["cbmc", "-DN=%d" % n, "-DREQ=%d" % req, "-DMAXL=%d" % ml, "-I", os.path.join(R, "include"), harness] + lib + \
            ["--unwind", "64", "--unwinding-assertions", "--bounds-check", "--pointer-check", "--object-bits", "12"]
        return c + (["--big-endian", "-D__BYTE_ORDER__=__ORDER_BIG_ENDIAN__"] if e == "big" else [])
    results = common.cbmc_sweep("vssstrarr", hs, jobs, cmd, "C10", "t" if thorough else "q")
    n_ok = 0
    for job, verdict, failed, trace in results:
        if verdict == "ok":
            n_ok += 1
            continue
        n, req, ml, e = job
        rep.violation("Vss:string-array:all-inputs:%s:n=%d:req%s" % (e, n, "<=n" if req <= n else ">n"),
                      {"kind": "real-code-violates-the-statement", "strings": n, "requested": req, "max_string_length": ml,
                       "host_byte_order": e, "failed_assertions": failed, "cbmc_trace_tail": trace[-2500:],
                       "replay_cmd": " ".join(cmd(job)) + " --trace"})
    rep.cov["cbmc_all_inputs"] = {"jobs": len(results), "verified": n_ok,
                                  "statement": "for all string lengths 0..%d and contents, N = 0..%d strings, requested counts {0, N-1, N, N+1, N+4}: "
                                               "C10 (harness/cbmc/vss_strarr_all_inputs.c) with CBMC bounds/pointer checks" % (maxl, 4 if thorough else 3)}


def cbmc_pad(rep, thorough):
    """CBMC on the REAL Avtp_Vss_Pad: per message length, for ALL prior buffer contents, C09 as
    stated (harness/cbmc/vsspad_all_inputs.c), both host byte orders."""
    import os
    import re
    R = common.REPO
    harness = os.path.join(common.VERIF, "harness", "cbmc", "vsspad_all_inputs.c")
    lib = [os.path.join(R, "src", "avtp", "acf", "custom", "Vss.c"), os.path.join(R, "src", "avtp", "Utils.c")]
    hs = lib + [harness, os.path.join(R, "include", "avtp", "acf", "custom", "Vss.h"), os.path.join(R, "include", "avtp", "Byteorder.h"),
                os.path.join(R, "include", "avtp", "Defines.h")]
    lengths = list(range(12, 2045)) if thorough else sorted(set(list(range(12, 81)) + list(range(250, 262)) + list(range(1018, 1031)) + list(range(2038, 2045))))
    jobs = [[n, e] for n in lengths for e in ("little", "big")]

    def cmd(job):
        n, e = job
        c = ["cbmc", "-DLEN=%d" % n, "-I", os.path.join(R, "include"), harness] + lib + \
            ["--unwind", str(n + 60), "--unwinding-assertions", "--no-standard-checks", "--object-bits", "8"]
        return c + (["--big-endian", "-D__BYTE_ORDER__=__ORDER_BIG_ENDIAN__"] if e == "big" else [])
    results = common.cbmc_sweep("vsspad", hs, jobs, cmd, "C09", "t" if thorough else "q")
    n_ok = 0
    for (n, e), verdict, failed, trace in results:
        if verdict == "ok":
            n_ok += 1
            continue
        d = {}
        for m in re.finditer(r"^\s*buf\[(\d+)l?\]=(\d+)", trace, re.M):
            d.setdefault(int(m.group(1)), int(m.group(2)))
        total = 4 + n + (4 - n % 4) % 4 + 8
        pdu = bytes(d.get(j, 0xff) for j in range(4, total))
        rep.violation("Vss:pad:all-inputs:%s:len%%4=%d" % (e, n % 4),
                      {"kind": "real-code-violates-the-statement", "length": n, "host_byte_order": e, "failed_assertions": failed,
                       "ops": ["buf a " + pdu.hex(), "vss_pad a 0 %d" % n, "dump a"],
                       "note": "from CBMC's trace on the real Avtp_Vss_Pad (bytes not shown in the trace excerpt are 0xff)"})
    rep.cov["cbmc_all_inputs"] = {"lengths": len(lengths), "byte_orders": 2, "verified": n_ok, "runs": len(results),
                                  "statement": "for all prior buffer contents: C09 (harness/cbmc/vsspad_all_inputs.c)"}


def check(rep, prop, tier, seed):
    rng = common.rng_for(prop, seed)
    thorough = tier == "thorough"
    obligations = [("checkC02_vss", "checkC02 Spec.vss Gen.vss = true", "by decide +kernel"),
                   ("checkC03_vss", "checkC03 Spec.vss Gen.vss = true", "by decide +kernel"),
                   ("algorithmic_functions_are_the_modelled_ones",
                    "Gen.vss.algorithmic.map (·.1) = [\"Vss_ReadBe16\", \"Vss_ReadBe32\", \"Vss_ReadBe64\", \"Vss_WriteBe16\", \"Vss_WriteBe32\", \"Vss_WriteBe64\", \"Avtp_Vss_Pad\", \"Avtp_Vss_GetVssPath\", \"Avtp_Vss_CalcVssPathLength\", "
                    "\"Avtp_Vss_GetVSSDataStringArrayLength\", \"Avtp_Vss_DeserializeStringArray\", \"Avtp_Vss_GetVssData\", "
                    "\"Avtp_Vss_SetVssPath\", \"Avtp_Vss_SetVssData\", \"Avtp_Vss_SerializeStringArray\"]", "by decide")]
    general = []
    if prop == "C08":
        obligations += [("readers_store_only_through_result_parameters", "checkReaders Gen.vss = true", "by decide")]
    if prop in ("C07", "C08"):
        obligations += [("path_size_return_type_holds_65537",
                         "(Gen.vss.algoFacts.lookup \"Avtp_Vss_CalcVssPathLength\").map (fun x => decide (17 ≤ x.1)) = some true", "by decide")]
    if prop == "C09":
        obligations += [("pad_memset_is_byte_granular", "(Gen.vss.algoFacts.lookup \"Avtp_Vss_Pad\").map (·.2) = some [1]", "by decide"),
                        ("checkC01_vss", "checkC01 Spec.vss Gen.vss = true", "by decide +kernel")]
        general = ["O1722.C09_pad", "O1722.vssPad_hist", "O1722.vssPad_scale12_witness"]
    elif prop == "C10":
        obligations += [("count_return_type_holds_65535", "(Gen.vss.algoFacts.lookup \"Avtp_Vss_GetVSSDataStringArrayLength\").map (·.1) = some 16", "by decide")]
        general = ["O1722.C10_serialize", "O1722.C10_count", "O1722.C10_deserialize", "O1722.C10_roundtrip"]
    elif prop == "C07":
        general = ["O1722.C07_path", "O1722.C07_value", "O1722.C07_reserved", "O1722.C08_calc"]
    else:
        general = ["O1722.C08_path", "O1722.C08_value", "O1722.C08_calc", "O1722.C08_roundtrip"]
    atoms_expr = ("[(\"Vss\", (atomsC02 Spec.vss Gen.vss) ++ (atomsC03 Spec.vss Gen.vss) ++ "
                  "[(\"pad-memset-scale-1\", (Gen.vss.algoFacts.lookup \"Avtp_Vss_Pad\").map (·.2) == some [1]), "
                  "(\"count-returns-16-bit\", (Gen.vss.algoFacts.lookup \"Avtp_Vss_GetVSSDataStringArrayLength\").map (·.1) == some 16)])]")
    if prop in ("C07", "C08"):
        atoms_expr = "[(\"Vss\", (atomsC02 Spec.vss Gen.vss) ++ (atomsC03 Spec.vss Gen.vss))]"
    if prop == "C09":
        atoms_expr = atoms_expr.replace("(\"count-returns-16-bit\", (Gen.vss.algoFacts.lookup \"Avtp_Vss_GetVSSDataStringArrayLength\").map (·.1) == some 16)", "(\"dummy\", true)")
    if prop == "C10":
        atoms_expr = atoms_expr.replace("(\"pad-memset-scale-1\", (Gen.vss.algoFacts.lookup \"Avtp_Vss_Pad\").map (·.2) == some [1]), ", "")
    if prop == "C08":
        atoms_expr = atoms_expr[:-1] + ", (\"Vss\", [(\"readers-store-only-results\", checkReaders Gen.vss)])]"
    res = pipeline.proof_stage(rep, prop, ["O1722.Gen.Data", "O1722.Props.Vss", "O1722.Props.Concurrency"], obligations, general, atoms_expr)
    spec, exe = common.build_harness("asan")
    cs, expect = GEN[prop](rng, thorough)
    bad = common.differential(exe, cs)
    diff_groups = {}
    seen = set()

    def key_of(t):
        return "Vss:%s:%s:%s" % (t["what"], t.get("code", t.get("len")), t["class"]) if prop in ("C07", "C08") else "Vss:%s:%s" % (t["what"], t["class"])

    for i, kind, c_lines, l_lines, err in bad:
        t = cs.tags[i]
        key = key_of(t)
        if key in seen:
            continue
        seen.add(key)
        rep.violation(key, {"kind": "real-code-differs-from-model" if kind == "diff" else "sanitizer-abort", "case": t,
                            "ops": [o[:400] for o in cs.cases[i]], "observed_real_code": [x[:400] for x in c_lines],
                            "expected_by_model": [x[:400] for x in l_lines], "expected_by_reference": [x[:400] for x in expect.get(i, [])],
                            "stderr": err[-1200:]})
        diff_groups.setdefault("Vss", []).append(i)
    # independent oracle: the Model/driver output must equal the reference computed here
    l_out = common.split_cases(common.run_lean(cs.render()))
    nref = 0
    for i, exp in expect.items():
        nref += 1
        got = [x for x in l_out.get(i, [])]
        if got != exp:
            t = cs.tags[i]
            key = "model-vs-reference:" + key_of(t)
            if key in seen:
                continue
            seen.add(key)
            rep.violation(key, {"kind": "model-differs-from-reference-encoding", "case": t, "ops": [o[:400] for o in cs.cases[i]],
                                "model": [x[:400] for x in got], "reference": [x[:400] for x in exp]})
            diff_groups.setdefault("Vss", []).append(i)
    if prop == "C09":
        cbmc_pad(rep, thorough)
        pad_c_text_vs_real(rep, exe, cs, expect, 300 if thorough else 80)
    if prop in ("C07", "C08"):
        cbmc_scalars(rep, prop, thorough)
    if prop == "C08":
        calc_c_text_vs_real(rep, exe, rng, 200 if thorough else 60)
    if prop == "C10":
        cbmc_strarr(rep, thorough)
    pipeline.report_proof_failures(rep, prop, res, diff_groups)
    cells = {(t["what"], t.get("mode"), t.get("code"), t["class"], t["len"] if prop in ("C09",) else None) for t in cs.tags}
    rep.cov.update(evaluations=len(cs.cases), distinct_nontrivial=len(cells), reference_checked=nref,
                   rule={"C07": "2 address modes x 24 datatypes x value/length classes (0,1,2,3,255,256,random; NaN payloads, sign bits) on exact-extent buffers at offsets 0/4 with trailing bytes; reserved modes and datatype codes; resulting bytes compared with the Model AND with the reference encoding computed independently from acf-vss.md",
                         "C08": "messages produced by the reference encoder placed at the very end of exact-extent buffers at offsets 0/2/4/5; path size, path, value in both phases of the length-query protocol, destinations of exactly the reported extent; compared with Model and reference",
                         "C09": "message lengths 12..2044 (all in thorough; all <= 80, every 7th and the last 15 in quick) x prior content with 0/3/16 trailing bytes; all 512 length-field values through the dedicated accessors",
                         "C10": "string lists (empty, empty strings, 255/256/257/300/400 strings, lengths 0..300), exact-extent source and destination blocks, requested counts {0, n-1, n, n+1, n+4} x {lengths only, with destinations}"}[prop],
                   failed_atoms=["%s:%s" % x for x in res["failed_atoms"]])
    rep.cov["samples"] = [{"ops": [o[:200] for o in cs.cases[1]], "tag": cs.tags[1]}, {"theorems": general}]
    rep.assumptions += ["the Model of Vss.c is tied to the C text by sampling, not by proof", "floats are stored with integer byte order on the host",
                        "caller-supplied objects (VssData_t, element arrays) are abstracted to values; their layout is the harness's concern"]
